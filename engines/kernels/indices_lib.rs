//! `integral_indices!` (lalrpop-util/src/state_machine.rs): the i8/i16/i32 encodings of table entries.
//! For EVERY value of the integer type: no arithmetic overflow, exactly one of shift/reduce/error, and
//! decode(encode) = id for the encodings the generator writes (shift to state s = s+1, reduce r = -(r+1)).
#![allow(unused)]
extern crate alloc;
use lalrpop_util::state_machine::*;

macro_rules! def {
    ($name:ident, $t:ty) => {
        pub struct $name;
        impl ParserDefinition for $name {
            type Location = usize; type Error = (); type Token = u8; type TokenIndex = usize; type Symbol = (); type Success = ();
            type StateIndex = $t; type Action = $t; type ReduceIndex = $t; type NonterminalIndex = usize;
            fn start_location(&self) -> usize { 0 }
            fn start_state(&self) -> $t { 0 }
            fn token_to_index(&self, _: &u8) -> Option<usize> { None }
            fn action(&self, _: $t, _: usize) -> $t { 0 }
            fn error_action(&self, _: $t) -> $t { 0 }
            fn eof_action(&self, _: $t) -> $t { 0 }
            fn goto(&self, _: $t, _: usize) -> $t { 0 }
            fn token_to_symbol(&self, _: usize, _: u8) {}
            fn expected_tokens(&self, _: $t) -> alloc::vec::Vec<alloc::string::String> { alloc::vec::Vec::new() }
            fn uses_error_recovery(&self) -> bool { false }
            fn error_recovery_symbol(&self, _: ErrorRecovery<Self>) {}
            fn reduce(&mut self, _: $t, _: Option<&usize>, _: &mut alloc::vec::Vec<$t>, _: &mut alloc::vec::Vec<SymbolTriple<Self>>) -> Option<ParseResult<Self>> { None }
            fn simulate_reduce(&self, _: $t) -> SimulatedReduce<Self> { SimulatedReduce::Accept }
        }
    };
}
def!(D8, i8);
def!(D16, i16);
def!(D32, i32);

#[cfg(kani)]
mod h {
    use super::*;
    macro_rules! harness {
        ($fname:ident, $d:ty, $t:ty) => {
            #[kani::proof]
            fn $fname() {
                let a: $t = kani::any();
                let s = <$t as ParserAction<$d>>::as_shift(a);
                let r = <$t as ParserAction<$d>>::as_reduce(a);
                let (is, ir, ie) = (<$t as ParserAction<$d>>::is_shift(a), <$t as ParserAction<$d>>::is_reduce(a), <$t as ParserAction<$d>>::is_error(a));
                assert!((is as u8) + (ir as u8) + (ie as u8) == 1, "exactly one of shift / reduce / error");
                assert!(s.is_some() == is && r.is_some() == ir);
                if let Some(st) = s { assert!(st >= 0 && st as i64 + 1 == a as i64, "shift target: entry - 1"); }
                if let Some(rd) = r { assert!(rd >= 0 && -(rd as i64 + 1) == a as i64, "reduce index: -(entry + 1), also for the most negative entry"); }
                // what the generator writes: state s as s+1, production p as -(p+1)
                let st: $t = kani::any();
                kani::assume(st >= 0 && st < <$t>::MAX);
                assert!(<$t as ParserAction<$d>>::as_shift(st + 1) == Some(st));
                let p: $t = kani::any();
                kani::assume(p >= 0 && p < <$t>::MAX);
                assert!(<$t as ParserAction<$d>>::as_reduce(-(p + 1)) == Some(p));
                kani::cover!(a == <$t>::MIN, "the most negative entry");
            }
        };
    }
    harness!(indices_i8, D8, i8);
    harness!(indices_i16, D16, i16);
    harness!(indices_i32, D32, i32);
}
