//! C28 harnesses: lalrpop_util::ParseError helpers (map_location / map_token / map_error / From).
//! External crate, path dependency on /repo/lalrpop-util; no hooks.  `expected` is a concretely
//! shaped Vec (length 0 or 2, empty strings): "left alone" is decided as same buffer + same length.
#![allow(unused)]
extern crate alloc;
use alloc::string::String;
use alloc::vec::Vec;
use lalrpop_util::ParseError;

type PE = ParseError<u8, u16, u32>;

#[cfg(kani)]
mod h {
    use super::*;

    fn expected(len: usize) -> Vec<String> {
        if len == 0 { Vec::new() } else { alloc::vec![String::new(), String::new()] }
    }

    struct Shape { variant: u8, l0: u8, l1: u8, tok: u16, err: u32, exp_ptr: *const String, exp_len: usize }

    fn any_pe(explen: usize) -> (PE, Shape) {
        let variant: u8 = kani::any();
        kani::assume(variant < 5);
        let (l0, l1, tok, err): (u8, u8, u16, u32) = (kani::any(), kani::any(), kani::any(), kani::any());
        let exp = expected(explen);
        let sh = Shape { variant, l0, l1, tok, err, exp_ptr: exp.as_ptr(), exp_len: exp.len() };
        let e = match variant {
            0 => ParseError::InvalidToken { location: l0 },
            1 => ParseError::UnrecognizedEof { location: l0, expected: exp },
            2 => ParseError::UnrecognizedToken { token: (l0, tok, l1), expected: exp },
            3 => ParseError::ExtraToken { token: (l0, tok, l1) },
            _ => ParseError::User { error: err },
        };
        (e, sh)
    }

    fn same(x: &Vec<String>, sh: &Shape) -> bool { x.as_ptr() == sh.exp_ptr && x.len() == sh.exp_len }

    fn map_location_for(explen: usize) {
        let (e, sh) = any_pe(explen);
        let mut calls = [0u8; 3];
        let mut ncalls = 0usize;
        let off: u32 = kani::any();
        let r: ParseError<u32, u16, u32> = e.map_location(|l| {
            if ncalls < 3 { calls[ncalls] = l; }
            ncalls += 1;
            (l as u32).wrapping_mul(3).wrapping_add(off)
        });
        let f = |l: u8| (l as u32).wrapping_mul(3).wrapping_add(off);
        match r {
            ParseError::InvalidToken { location: b } => {
                assert!(sh.variant == 0, "variant kept");
                assert!(b == f(sh.l0)); assert!(ncalls == 1 && calls[0] == sh.l0);
            }
            ParseError::UnrecognizedEof { location: b, expected: x } => {
                assert!(sh.variant == 1, "variant kept");
                assert!(b == f(sh.l0)); assert!(ncalls == 1 && calls[0] == sh.l0); assert!(same(&x, &sh), "expected list left alone");
                core::mem::forget(x);
            }
            ParseError::UnrecognizedToken { token: (s2, t2, e2), expected: x } => {
                assert!(sh.variant == 2, "variant kept");
                assert!(s2 == f(sh.l0), "start of the token span is mapped");
                assert!(e2 == f(sh.l1), "end of the token span is mapped");
                assert!(t2 == sh.tok, "token untouched");
                assert!(ncalls == 2 && calls[0] == sh.l0 && calls[1] == sh.l1, "function applied exactly once per location, start first");
                assert!(same(&x, &sh), "expected list left alone");
                core::mem::forget(x);
            }
            ParseError::ExtraToken { token: (s2, t2, e2) } => {
                assert!(sh.variant == 3, "variant kept");
                assert!(s2 == f(sh.l0)); assert!(e2 == f(sh.l1)); assert!(t2 == sh.tok);
                assert!(ncalls == 2 && calls[0] == sh.l0 && calls[1] == sh.l1);
            }
            ParseError::User { error: b } => {
                assert!(sh.variant == 4, "variant kept");
                assert!(b == sh.err, "user error untouched"); assert!(ncalls == 0);
            }
        }
        kani::cover!(sh.variant == 2 && sh.l0 != sh.l1, "token span with distinct ends");
    }
    #[kani::proof] #[kani::unwind(4)] fn map_location_exp0() { map_location_for(0) }
    #[kani::proof] #[kani::unwind(4)] fn map_location_exp2() { map_location_for(2) }

    #[kani::proof]
    #[kani::unwind(4)]
    fn map_token() {
        let (e, sh) = any_pe(2);
        let k: u64 = kani::any();
        let mut ncalls = 0u8;
        let r: ParseError<u8, u64, u32> = e.map_token(|t| { ncalls += 1; (t as u64) ^ k });
        match r {
            ParseError::InvalidToken { location: b } => { assert!(sh.variant == 0); assert!(b == sh.l0); assert!(ncalls == 0); }
            ParseError::UnrecognizedEof { location: b, expected: x } => { assert!(sh.variant == 1); assert!(b == sh.l0); assert!(same(&x, &sh)); assert!(ncalls == 0); core::mem::forget(x); }
            ParseError::UnrecognizedToken { token: (s2, t2, e2), expected: x } => {
                assert!(sh.variant == 2);
                assert!(s2 == sh.l0 && e2 == sh.l1, "locations untouched"); assert!(t2 == (sh.tok as u64) ^ k, "token mapped"); assert!(ncalls == 1); assert!(same(&x, &sh));
                core::mem::forget(x);
            }
            ParseError::ExtraToken { token: (s2, t2, e2) } => { assert!(sh.variant == 3); assert!(s2 == sh.l0 && e2 == sh.l1); assert!(t2 == (sh.tok as u64) ^ k); assert!(ncalls == 1); }
            ParseError::User { error: b } => { assert!(sh.variant == 4); assert!(b == sh.err); assert!(ncalls == 0); }
        }
    }

    #[kani::proof]
    #[kani::unwind(4)]
    fn map_error() {
        let (e, sh) = any_pe(2);
        let k: u64 = kani::any();
        let mut ncalls = 0u8;
        let r: ParseError<u8, u16, u64> = e.map_error(|t| { ncalls += 1; (t as u64) ^ k });
        match r {
            ParseError::InvalidToken { location: b } => { assert!(sh.variant == 0); assert!(b == sh.l0); assert!(ncalls == 0); }
            ParseError::UnrecognizedEof { location: b, expected: x } => { assert!(sh.variant == 1); assert!(b == sh.l0); assert!(same(&x, &sh)); assert!(ncalls == 0); core::mem::forget(x); }
            ParseError::UnrecognizedToken { token: (s2, t2, e2), expected: x } => {
                assert!(sh.variant == 2);
                assert!(s2 == sh.l0 && e2 == sh.l1 && t2 == sh.tok, "token and locations untouched"); assert!(ncalls == 0); assert!(same(&x, &sh));
                core::mem::forget(x);
            }
            ParseError::ExtraToken { token: (s2, t2, e2) } => { assert!(sh.variant == 3); assert!(s2 == sh.l0 && e2 == sh.l1 && t2 == sh.tok); assert!(ncalls == 0); }
            ParseError::User { error: b } => { assert!(sh.variant == 4); assert!(b == (sh.err as u64) ^ k, "user error mapped"); assert!(ncalls == 1); }
        }
    }

    #[kani::proof]
    fn from_user() {
        let x: u32 = kani::any();
        let e: PE = PE::from(x);
        match e { ParseError::User { error } => assert!(error == x), _ => panic!("From<E> must build User") }
        let e2: PE = x.into();
        match e2 { ParseError::User { error } => assert!(error == x), _ => panic!("Into must build User") }
    }
}
