//! Drives the real generator through its library API (`lalrpop::Configuration::process_dir`), which is
//! the path that reads CARGO_FEATURE_* – the CLI only offers `process_file` + `--features`.
//! usage: gendrv <in_dir> <out_dir> [--features a,b]
use std::process::exit;
fn main() {
    let args: Vec<String> = std::env::args().collect();
    if args.len() < 3 { eprintln!("usage: gendrv <in_dir> <out_dir> [--features a,b]"); exit(2); }
    let mut cfg = lalrpop::Configuration::new();
    cfg.set_in_dir(&args[1]).set_out_dir(&args[2]).force_build(true).log_quiet();
    if args.len() >= 5 && args[3] == "--features" {
        cfg.set_features(args[4].split(',').filter(|s| !s.is_empty()).map(String::from));
    }
    match cfg.process() {
        Ok(()) => exit(0),
        Err(e) => { eprintln!("Error: {}", e); exit(1); }
    }
}
