//! Engine E3 `symdrive`: dynamic symbolic execution of the REAL, natively compiled
//! `lalrpop_util::state_machine::Parser::drive`.
//!
//! The driver is generic over `ParserDefinition`.  `SymDef` below instantiates it with handle types:
//! states, actions, reductions, nonterminals are SMT terms over uninterpreted table functions
//! (akind/ared/atgt, ekind/ered, rkind/rred/rtgt, goto, pop, lhs, isacc, hasidx); tokens, locations and
//! user errors are opaque handles.  Every data-dependent branch of the driver goes through a trait
//! method that needs a concrete answer; the engine asks z3 (`z3 -in`, SMT-LIB, push/pop) which answers
//! are satisfiable under the current path condition, takes one and schedules the others (DFS by
//! re-execution from the start; a run costs microseconds).  At the end of each path the properties are
//! checked on the event log.
//!
//! usage: symdrive --tokens N --reds R --maxpop P [--recovery] [--iter-err] [--user-err] [--max-paths M]
//!                 [--replay "c0,c1,..."]
//! output: one JSON object on stdout.
#![allow(dead_code)]
use lalrpop_util::state_machine::*;
use lalrpop_util::ParseError;
use std::cell::RefCell;
use std::collections::HashMap;
use std::io::{BufRead, BufReader, Write};
use std::process::{Child, ChildStdin, ChildStdout, Command, Stdio};

// ------------------------------------------------------------------------------------------------
// handles
// ------------------------------------------------------------------------------------------------
#[derive(Clone, Copy, Debug, PartialEq, Eq, Hash)]
pub struct St(u32);
#[derive(Clone, Copy, Debug, PartialEq, Eq)]
pub struct TIdx(u32, usize); // (term id, pulled-token number)
#[derive(Clone, Copy, Debug, PartialEq, Eq)]
pub struct Red(u32);
#[derive(Clone, Copy, Debug, PartialEq, Eq)]
pub struct Nt(u32);
#[derive(Clone, Copy, Debug, PartialEq, Eq)]
pub enum Origin { Tok, Eof, Err }
#[derive(Clone, Copy, Debug)]
pub struct Act { id: u32, kind: u32, red: u32, tgt: u32, origin: Origin, state: St }
#[derive(Clone, Debug, PartialEq, Eq)]
pub enum Loc { Start, TokL(usize), TokR(usize) }
#[derive(Clone, Debug, PartialEq, Eq)]
pub struct Tok(usize);
#[derive(Clone, Debug, PartialEq, Eq)]
pub enum UErr { Iter(usize), Action(usize) }
#[derive(Clone, Debug)]
pub enum Sym {
    Tok(usize),
    Nt { red: Red, children: Vec<(Loc, Sym, Loc)> },
    Rec { error: PErr, dropped: Vec<(Loc, Tok, Loc)> },
    Accepted(Vec<(Loc, Sym, Loc)>),
}
type PErr = ParseError<Loc, Tok, UErr>;

fn pos(l: &Loc) -> i64 {
    match l { Loc::Start => -1, Loc::TokL(i) => 2 * (*i as i64), Loc::TokR(i) => 2 * (*i as i64) + 1 }
}

// ------------------------------------------------------------------------------------------------
// events
// ------------------------------------------------------------------------------------------------
#[derive(Clone, Debug)]
enum Ev {
    Next(Option<Result<usize, usize>>),        // Some(Ok(i)) pulled token i, Some(Err(e)), None
    NextAfterEnd,
    TokenToIndex(usize, bool),
    Query { origin: Origin, state: St },
    Method { act: u32, origin: Origin, state: St, method: &'static str, kind: u8, first: bool },
    TokenToSymbol(usize),
    ReduceCall { red: Red, la: Option<Loc>, states: Vec<St>, syms: Vec<(Loc, Loc)>, outcome: &'static str, pop: usize, accept: bool },
    SimReduce { red: Red, accept: bool, pop: usize },
    Goto(St, Nt),
    Expected { n: usize, states: Vec<St> },
    RecoverySymbol { dropped: Vec<usize>, error_kind: &'static str },
}

struct Cut(&'static str);

// ------------------------------------------------------------------------------------------------
// z3 pipe
// ------------------------------------------------------------------------------------------------
struct Z3 { child: Child, sin: ChildStdin, sout: BufReader<ChildStdout>, queries: u64, time: f64 }
impl Z3 {
    fn new() -> Z3 {
        let exe = std::env::var("VERIF_Z3").unwrap_or_else(|_| "z3".to_string());
        let mut child = Command::new(exe).arg("-in").stdin(Stdio::piped()).stdout(Stdio::piped()).spawn().expect("z3");
        let sin = child.stdin.take().unwrap();
        let sout = BufReader::new(child.stdout.take().unwrap());
        let mut z = Z3 { child, sin, sout, queries: 0, time: 0.0 };
        z.send("(set-logic QF_UFLIA)");
        for d in [
            "(declare-fun akind (Int Int) Int)", "(declare-fun ared (Int Int) Int)", "(declare-fun atgt (Int Int) Int)",
            "(declare-fun ekind (Int) Int)", "(declare-fun ered (Int) Int)",
            "(declare-fun rkind (Int) Int)", "(declare-fun rred (Int) Int)", "(declare-fun rtgt (Int) Int)",
            "(declare-fun goto (Int Int) Int)", "(declare-fun pop (Int) Int)", "(declare-fun lhs (Int) Int)",
            "(declare-fun isacc (Int) Bool)", "(declare-fun hasidx (Int) Bool)", "(declare-fun tidx (Int) Int)",
            "(declare-const s0 Int)",
        ] { z.send(d); }
        z
    }
    fn send(&mut self, s: &str) { writeln!(self.sin, "{}", s).unwrap(); }
    fn check(&mut self, extra: &str) -> bool {
        let t0 = std::time::Instant::now();
        self.send("(push)");
        self.send(&format!("(assert {})", extra));
        self.send("(check-sat)");
        self.send("(pop)");
        self.sin.flush().unwrap();
        let mut line = String::new();
        self.sout.read_line(&mut line).unwrap();
        self.queries += 1;
        self.time += t0.elapsed().as_secs_f64();
        let l = line.trim();
        if l == "sat" { true } else if l == "unsat" { false } else { panic!("z3 said {:?}", l) }
    }
}

// ------------------------------------------------------------------------------------------------
// engine
// ------------------------------------------------------------------------------------------------
#[derive(Clone, Copy)]
struct Bounds { tokens: usize, reds: usize, maxpop: usize, recovery: bool, iter_err: bool, user_err: bool, max_steps: usize, max_recoveries: usize }

struct Eng {
    z3: Z3,
    b: Bounds,
    terms: Vec<String>,
    intern: HashMap<String, u32>,
    depth: HashMap<u32, usize>,
    script: Vec<u8>,
    pos: usize,
    trace: Vec<u8>,
    pending: Vec<Vec<u8>>,
    events: Vec<Ev>,
    kind_memo: HashMap<u32, u8>,
    act_seen: HashMap<u32, bool>,
    pulled: usize,
    iter_done: bool,
    reds_since_shift: usize,
    sim_reds: usize,
    last_query_depth: usize,
    ncalls: usize,
    nexpected: usize,
    nrecov: usize,
    last_reduce_origin: Origin,
    steps: usize,
    next_act: u32,
    decisions: u64,
}

thread_local! { static ENG: RefCell<Option<Eng>> = RefCell::new(None); }
fn with<R>(f: impl FnOnce(&mut Eng) -> R) -> R { ENG.with(|e| f(e.borrow_mut().as_mut().unwrap())) }

impl Eng {
    fn term(&mut self, s: String) -> u32 {
        if let Some(&i) = self.intern.get(&s) { return i; }
        let i = self.terms.len() as u32;
        self.terms.push(s.clone());
        self.intern.insert(s, i);
        i
    }
    fn t(&self, i: u32) -> &str { &self.terms[i as usize] }
    fn step(&mut self) {
        self.steps += 1;
        if self.steps > self.b.max_steps { std::panic::panic_any(Cut("step bound")); }
    }
    /// One decision: `outcomes[i]` is the SMT constraint of outcome i.
    fn decide(&mut self, outcomes: &[String]) -> usize {
        self.decisions += 1;
        if self.pos < self.script.len() {
            let c = self.script[self.pos] as usize;
            self.pos += 1;
            self.trace.push(c as u8);
            let a = format!("(assert {})", outcomes[c]);
            self.z3.send(&a);
            return c;
        }
        let mut feasible = vec![];
        for (i, o) in outcomes.iter().enumerate() {
            if self.z3.check(o) { feasible.push(i); }
        }
        if feasible.is_empty() { std::panic::panic_any(Cut("no feasible outcome")); }
        let c = feasible[0];
        for &alt in &feasible[1..] {
            let mut p = self.trace.clone();
            p.push(alt as u8);
            self.pending.push(p);
        }
        self.trace.push(c as u8);
        self.pos += 1;
        let a = format!("(assert {})", outcomes[c]);
        self.z3.send(&a);
        c
    }
    fn kind_of(&mut self, a: Act) -> u8 {
        if let Some(&k) = self.kind_memo.get(&a.kind) { return k; }
        let kt = self.t(a.kind).to_string();
        // EOF actions are never shifts (contract: the generator only writes reduce/error there)
        let allowed: Vec<u8> = match a.origin { Origin::Eof => vec![0, 2], _ => vec![0, 1, 2] };
        let outs: Vec<String> = allowed.iter().map(|k| format!("(= {} {})", kt, k)).collect();
        let c = self.decide(&outs);
        let k = allowed[c];
        self.kind_memo.insert(a.kind, k);
        k
    }
    fn method(&mut self, a: Act, m: &'static str) -> u8 {
        self.step();
        let first = !self.act_seen.contains_key(&a.id);
        self.act_seen.insert(a.id, true);
        let k = self.kind_of(a);
        self.events.push(Ev::Method { act: a.id, origin: a.origin, state: a.state, method: m, kind: k, first });
        k
    }
}

// ------------------------------------------------------------------------------------------------
// the definition
// ------------------------------------------------------------------------------------------------
pub struct SymDef;

impl ParserAction<SymDef> for Act {
    fn as_shift(self) -> Option<St> {
        let k = with(|e| e.method(self, "as_shift"));
        if k == 1 {
            Some(with(|e| { let d = e.depth[&self.state.0]; e.depth.insert(self.tgt, d + 1); St(self.tgt) }))
        } else { None }
    }
    fn as_reduce(self) -> Option<Red> {
        let k = with(|e| { let k = e.method(self, "as_reduce"); if k == 2 { e.last_reduce_origin = self.origin; } k });
        if k == 2 { Some(Red(self.red)) } else { None }
    }
    fn is_shift(self) -> bool { with(|e| e.method(self, "is_shift")) == 1 }
    fn is_reduce(self) -> bool { with(|e| e.method(self, "is_reduce")) == 2 }
    fn is_error(self) -> bool { with(|e| e.method(self, "is_error")) == 0 }
}

impl SymDef {
    fn mk_act(e: &mut Eng, origin: Origin, state: St, tok: Option<TIdx>) -> Act {
        e.step();
        let s = e.t(state.0).to_string();
        let (k, r, t) = match (origin, tok) {
            (Origin::Tok, Some(ti)) => { let ts = e.t(ti.0).to_string(); (format!("(akind {} {})", s, ts), format!("(ared {} {})", s, ts), format!("(atgt {} {})", s, ts)) }
            (Origin::Eof, _) => (format!("(ekind {})", s), format!("(ered {})", s), format!("(ekind {})", s)),
            (Origin::Err, _) => (format!("(rkind {})", s), format!("(rred {})", s), format!("(rtgt {})", s)),
            _ => unreachable!(),
        };
        let (k, r, t) = (e.term(k), e.term(r), e.term(t));
        e.last_query_depth = e.depth[&state.0];
        e.events.push(Ev::Query { origin, state });
        let id = e.next_act;
        e.next_act += 1;
        Act { id, kind: k, red: r, tgt: t, origin, state }
    }
}

impl ParserDefinition for SymDef {
    type Location = Loc;
    type Error = UErr;
    type Token = Tok;
    type TokenIndex = TIdx;
    type Symbol = Sym;
    type Success = Sym;
    type StateIndex = St;
    type Action = Act;
    type ReduceIndex = Red;
    type NonterminalIndex = Nt;

    fn start_location(&self) -> Loc { Loc::Start }
    fn start_state(&self) -> St { with(|e| { let t = e.term("s0".into()); e.depth.insert(t, 1); St(t) }) }
    fn token_to_index(&self, token: &Tok) -> Option<TIdx> {
        with(|e| {
            e.step();
            let i = token.0;
            let c = e.decide(&[format!("(hasidx {})", i), format!("(not (hasidx {}))", i)]);
            e.events.push(Ev::TokenToIndex(i, c == 0));
            if c == 0 { let t = e.term(format!("(tidx {})", i)); Some(TIdx(t, i)) } else { None }
        })
    }
    fn action(&self, state: St, ti: TIdx) -> Act { with(|e| SymDef::mk_act(e, Origin::Tok, state, Some(ti))) }
    fn error_action(&self, state: St) -> Act { with(|e| SymDef::mk_act(e, Origin::Err, state, None)) }
    fn eof_action(&self, state: St) -> Act { with(|e| SymDef::mk_act(e, Origin::Eof, state, None)) }
    fn goto(&self, state: St, nt: Nt) -> St {
        with(|e| {
            e.step();
            let t = format!("(goto {} {})", e.t(state.0), e.t(nt.0));
            let t = e.term(t);
            let d = e.depth[&state.0];
            e.depth.insert(t, d + 1);
            e.events.push(Ev::Goto(state, nt));
            St(t)
        })
    }
    fn token_to_symbol(&self, ti: TIdx, token: Tok) -> Sym {
        with(|e| { e.step(); e.reds_since_shift = 0; e.events.push(Ev::TokenToSymbol(token.0)); });
        let _ = ti;
        Sym::Tok(token.0)
    }
    fn expected_tokens(&self, _state: St) -> Vec<String> { vec!["expected_tokens(state) must not be used".into()] }
    fn expected_tokens_from_states(&self, states: &[St]) -> Vec<String> {
        with(|e| {
            e.step();
            let n = e.nexpected;
            e.nexpected += 1;
            // every error (recovered or not) starts with this call: bound the number of errors per path
            if e.b.recovery && n >= e.b.max_recoveries { std::panic::panic_any(Cut("more syntax errors on one path than the bound")); }
            e.events.push(Ev::Expected { n, states: states.to_vec() });
            vec![format!("exp#{}", n)]
        })
    }
    fn uses_error_recovery(&self) -> bool { with(|e| e.b.recovery) }
    fn error_recovery_symbol(&self, recovery: ErrorRecovery<Self>) -> Sym {
        with(|e| {
            e.step();
            let kind = match &recovery.error {
                ParseError::UnrecognizedToken { .. } => "UnrecognizedToken",
                ParseError::UnrecognizedEof { .. } => "UnrecognizedEof",
                _ => "other",
            };
            e.events.push(Ev::RecoverySymbol { dropped: recovery.dropped_tokens.iter().map(|t| (t.1).0).collect(), error_kind: kind });
        });
        Sym::Rec { error: recovery.error, dropped: recovery.dropped_tokens }
    }
    fn reduce(&mut self, red: Red, la: Option<&Loc>, states: &mut Vec<St>, symbols: &mut Vec<SymbolTriple<Self>>) -> Option<ParseResult<Self>> {
        let (accept, fail, k, callno) = with(|e| {
            e.step();
            e.reds_since_shift += 1;
            if e.reds_since_shift > e.b.reds { std::panic::panic_any(Cut("more reductions between two shifts than the bound")); }
            let r = e.t(red.0).to_string();
            // contract: the error column (`!` lookahead) never holds the accept reduction
            let accept = if e.last_reduce_origin == Origin::Err { e.decide(&[format!("(not (isacc {}))", r)]); false }
                         else { e.decide(&[format!("(not (isacc {}))", r), format!("(isacc {})", r)]) == 1 };
            let callno = e.ncalls;
            e.ncalls += 1;
            let fail = if e.b.user_err { e.decide(&["true".to_string(), "true".to_string()]) == 1 } else { false };
            let mut k = 0;
            if !fail && !accept {
                let maxk = std::cmp::min(e.b.maxpop, states.len().saturating_sub(1));
                let outs: Vec<String> = (0..=maxk).map(|k| format!("(= (pop {}) {})", r, k)).collect();
                k = e.decide(&outs);
            }
            let syms: Vec<(Loc, Loc)> = symbols.iter().map(|s| (s.0.clone(), s.2.clone())).collect();
            e.events.push(Ev::ReduceCall { red, la: la.cloned(), states: states.clone(), syms, outcome: if fail { "fail" } else if accept { "accept" } else { "reduce" }, pop: k, accept });
            (accept, fail, k, callno)
        });
        if fail { return Some(Err(ParseError::User { error: UErr::Action(callno) })); }
        if accept {
            let all: Vec<_> = symbols.drain(..).collect();
            return Some(Ok(Sym::Accepted(all)));
        }
        let n = symbols.len();
        let children: Vec<(Loc, Sym, Loc)> = symbols.drain(n - k..).collect();
        let (start, end) = if k > 0 { (children[0].0.clone(), children[k - 1].2.clone()) } else {
            let p = la.cloned().or_else(|| symbols.last().map(|s| s.2.clone())).unwrap_or(Loc::Start);
            (p.clone(), p)
        };
        let sl = states.len();
        states.truncate(sl - k);
        let top = *states.last().unwrap();
        let nt = with(|e| { let t = format!("(lhs {})", e.t(red.0)); Nt(e.term(t)) });
        let g = self.goto(top, nt);
        states.push(g);
        symbols.push((start, Sym::Nt { red, children }, end));
        None
    }
    fn simulate_reduce(&self, red: Red) -> SimulatedReduce<Self> {
        with(|e| {
            e.step();
            e.sim_reds += 1;
            if e.sim_reds > e.b.reds { std::panic::panic_any(Cut("more simulated reductions in accepts() than the bound")); }
            let r = e.t(red.0).to_string();
            let accept = e.decide(&[format!("(not (isacc {}))", r), format!("(isacc {})", r)]) == 1;
            if accept {
                e.events.push(Ev::SimReduce { red, accept: true, pop: 0 });
                return SimulatedReduce::Accept;
            }
            // contract: a reduction never pops more than the (simulated) stack holds
            let maxk = std::cmp::min(e.b.maxpop, e.last_query_depth.saturating_sub(1));
            let outs: Vec<String> = (0..=maxk).map(|k| format!("(= (pop {}) {})", r, k)).collect();
            let k = e.decide(&outs);
            e.events.push(Ev::SimReduce { red, accept: false, pop: k });
            let t = format!("(lhs {})", r);
            SimulatedReduce::Reduce { states_to_pop: k, nonterminal_produced: Nt(e.term(t)) }
        })
    }
}

struct It;
impl Iterator for It {
    type Item = Result<(Loc, Tok, Loc), PErr>;
    fn next(&mut self) -> Option<Self::Item> {
        with(|e| {
            e.step();
            if e.iter_done { e.events.push(Ev::NextAfterEnd); return None; }
            e.sim_reds = 0;
            let mut outs = vec!["true".to_string()];                        // 0: end of input
            if e.pulled < e.b.tokens { outs.push("true".to_string()); }     // 1: a token
            let err_ix = outs.len();
            if e.b.iter_err { outs.push("true".to_string()); }             // err_ix: the stream fails
            let c = e.decide(&outs);
            if c == 0 { e.iter_done = true; e.events.push(Ev::Next(None)); return None; }
            if c == err_ix && e.b.iter_err {
                e.iter_done = true;
                let n = e.pulled;
                e.events.push(Ev::Next(Some(Err(n))));
                return Some(Err(ParseError::User { error: UErr::Iter(n) }));
            }
            let i = e.pulled;
            e.pulled += 1;
            e.events.push(Ev::Next(Some(Ok(i))));
            Some(Ok((Loc::TokL(i), Tok(i), Loc::TokR(i))))
        })
    }
}

// ------------------------------------------------------------------------------------------------
// path-end property checks
// ------------------------------------------------------------------------------------------------
fn collect_leaves(s: &(Loc, Sym, Loc), toks: &mut Vec<usize>, errs: &mut Vec<(Loc, Loc, Vec<usize>)>) {
    match &s.1 {
        Sym::Tok(i) => toks.push(*i),
        Sym::Nt { children, .. } => for c in children { collect_leaves(c, toks, errs); },
        Sym::Rec { dropped, .. } => errs.push((s.0.clone(), s.2.clone(), dropped.iter().map(|t| (t.1).0).collect())),
        Sym::Accepted(v) => for c in v { collect_leaves(c, toks, errs); },
    }
}

/// Returns property violations as (property id, message).
fn check_path(b: &Bounds, events: &[Ev], result_opt: Option<&Result<ParseResult<SymDef>, String>>) -> Vec<(&'static str, String)> {
    let mut v: Vec<(&'static str, String)> = vec![];
    // ---- replay the LR-run specification over the decisions and compare with what the driver did
    let mut pulled: Vec<usize> = vec![];
    let mut shifted: Vec<usize> = vec![];
    let mut dropped_all: Vec<usize> = vec![];
    let mut iter_end: Option<usize> = None;       // event index where the stream ended (None or Err)
    let mut injected_err: Option<(usize, UErr)> = None;
    let mut detect_stack: Option<Vec<St>> = None;
    let mut shadow: Vec<St> = vec![St(0)];         // LR-run stack (term 0 is s0); u32::MAX = not yet revealed
    let mut pending_shift: Option<St> = None;
    let mut expected_calls: Vec<(usize, Vec<St>, usize)> = vec![];
    let mut recoveries = 0usize;
    let mut in_error_path = false;
    let mut shadow_valid = true;                   // false between a recovery and the next full view of the real stack
    let mut after_recovery = false;                // a recovery has pushed its error state and the lookahead has not been shifted yet
    let mut in_accepts = false;                    // inside error_recovery (after the error was built): table queries there are simulations
    let mut last_next: Option<Option<usize>> = None; // the current lookahead: Some(Some(i)) token #i pulled last, Some(None) the stream has ended
    for (ix, ev) in events.iter().enumerate() {
        match ev {
            Ev::Next(Some(Ok(i))) => { pulled.push(*i); last_next = Some(Some(*i)); }
            Ev::Next(Some(Err(n))) => { iter_end = Some(ix); injected_err = Some((ix, UErr::Iter(*n))); }
            Ev::Next(None) => { iter_end = Some(ix); last_next = Some(None); }
            Ev::NextAfterEnd => v.push(("C17", "the token stream was polled again after it had ended / failed".into())),
            Ev::TokenToIndex(_, false) => { detect_stack = if shadow_valid { Some(shadow.clone()) } else { Some(vec![]) }; in_error_path = true; }
            Ev::Query { origin: Origin::Tok, state } | Ev::Query { origin: Origin::Eof, state } => {
                let _ = state;
            }
            Ev::Method { origin, state, method, kind, first, .. } => {
                // main loop: action() followed by as_shift(); parse_eof: eof_action() followed by as_reduce()
                // An error-kind answer of the token / EOF table outside accepts() is the detection of a syntax error.  accepts() asks the same
                // tables about simulated states, but only between a detection and the end of that recovery, where these clauses are idle;
                // the classification does not depend on which ParserAction method the driver happens to call first.
                if *first && *origin == Origin::Tok && !in_accepts {
                    if shadow.is_empty() { shadow.push(*state); }
                    if let Some(l) = shadow.last_mut() { if l.0 == u32::MAX { *l = *state; } }
                    if shadow_valid && shadow.last() != Some(state) { v.push(("C01", format!("driver consulted the action table with state {:?} but the LR run has {:?} on top", state, shadow.last()))); }
                    if *kind == 0 {
                        detect_stack = if shadow_valid { Some(shadow.clone()) } else { Some(vec![]) }; in_error_path = true;
                        if after_recovery { v.push(("C08", "no progress after error recovery: accepts() approved the lookahead for the recovery state, but the parse hits an error action again before shifting it".into())); }
                    }
                }
                if *first && *origin == Origin::Eof && !in_accepts {
                    if shadow.is_empty() { shadow.push(*state); }
                    if let Some(l) = shadow.last_mut() { if l.0 == u32::MAX { *l = *state; } }
                    if shadow_valid && shadow.last() != Some(state) { v.push(("C01", format!("driver consulted the EOF table with state {:?} but the LR run has {:?} on top", state, shadow.last()))); }
                    if *kind != 2 {
                        detect_stack = if shadow_valid { Some(shadow.clone()) } else { Some(vec![]) }; in_error_path = true;
                        if after_recovery { v.push(("C08", "no progress after error recovery at end of input: accepts() approved EOF for the recovery state, but the EOF action is an error again".into())); }
                    }
                }
                if *origin == Origin::Tok && *kind == 1 && !in_accepts { pending_shift = Some(*state); }
                let _ = method;
            }
            Ev::TokenToSymbol(i) => {
                after_recovery = false;
                shifted.push(*i);
                // the driver pushes the shift target right after this call
                if let Some(from) = pending_shift.take() {
                    if shadow.is_empty() { shadow.push(from); }
                }
                // the target state handle is revealed by the next query; mark unknown with a resync
                shadow.push(St(u32::MAX));
            }
            Ev::ReduceCall { states, syms, outcome, pop, la, .. } => {
                if states.len() != syms.len() + 1 { v.push(("C16", format!("states.len()={} but symbols.len()={} at a reduce", states.len(), syms.len()))); }
                if let Some((eix, _)) = &injected_err { if ix > *eix { v.push(("C17", "an action ran after an error had been returned by the stream / an action".into())); } }
                // resync unknown entries of the shadow with the real stack, then compare
                if shadow_valid {
                    for (a, b) in shadow.iter_mut().zip(states.iter()) { if a.0 == u32::MAX { *a = *b; } }
                    if shadow != *states { v.push(("C01", format!("state stack {:?} differs from the LR run {:?}", states, shadow))); }
                }
                shadow = states.clone();
                shadow_valid = true;
                if *outcome == "fail" { injected_err = Some((ix, UErr::Action(0))); }
                if *outcome == "reduce" { let n = shadow.len(); shadow.truncate(n - pop); shadow.push(St(u32::MAX)); }
                // the location handed to reduce() is the start of the current lookahead token (None at end of input): the generated
                // __reduce places empty productions there (C06); inside error_recovery the error node's span is derived from it (C16)
                if let Some(ln) = last_next {
                    let want = ln.map(Loc::TokL);
                    if *la != want {
                        let msg = format!("reduce() was handed the location {:?}, but the lookahead is {} (want {:?})", la, match ln { Some(i) => format!("token #{}", i), None => "the end of input".to_string() }, want);
                        v.push(("C06", msg.clone()));
                        if in_accepts { v.push(("C16", format!("during error recovery: {}", msg))); }
                    }
                }
            }
            Ev::Goto(_, _) => {}
            Ev::Expected { n, states } => {
                in_accepts = true;
                for (a, b) in shadow.iter_mut().zip(states.iter()) { if a.0 == u32::MAX { *a = *b; } }
                expected_calls.push((*n, states.clone(), ix));
                if let Some((eix, _)) = &injected_err { if ix > *eix { v.push(("C17", "an expected-token list was computed after an error had been returned".into())); } }
                match &detect_stack {
                    None => v.push(("C05", "expected tokens computed although no error action had been met".into())),
                    Some(ds) if ds.is_empty() => { /* detection stack unknown (right after a recovery): not checked */ }
                    Some(ds) => {
                        let mut ds = ds.clone();
                        for (a, b) in ds.iter_mut().zip(states.iter()) { if a.0 == u32::MAX { *a = *b; } }
                        if ds.len() != states.len() || ds != *states {
                            v.push(("C05", format!("expected tokens computed from stack {:?}, but the stack when the error action was met was {:?}", states, ds)));
                        }
                    }
                }
            }
            Ev::RecoverySymbol { dropped, .. } => {
                recoveries += 1;
                if let Some((eix, _)) = &injected_err { if ix > *eix { v.push(("C17", "error recovery intercepted a user / stream error".into())); } }
                // dropped tokens: consecutive pulled tokens in order
                for w in dropped.windows(2) { if w[1] != w[0] + 1 { v.push(("C16", format!("dropped tokens not consecutive: {:?}", dropped))); } }
                for d in dropped { if dropped_all.contains(d) || shifted.contains(d) { v.push(("C16", format!("token {} dropped twice or dropped after being shifted", d))); } dropped_all.push(*d); }
                detect_stack = None;
                shadow_valid = false;
                after_recovery = true;
                in_accepts = false;
            }
            _ => {}
        }
    }
    let _ = (iter_end, in_error_path);
    // ---- the result (paths cut by a bound have none: only the event-level properties above apply to them)
    let result = match result_opt { Some(r) => r, None => return v };
    let last_pulled = pulled.last().cloned();
    match result {
        Err(msg) => { v.push(("C08", format!("the driver panicked: {}", msg))); }
        Ok(Ok(sym)) => {
            // accounting for every pulled token (C16) / plain acceptance
            let mut toks = vec![]; let mut errs = vec![];
            collect_leaves(&(Loc::Start, sym.clone(), Loc::Start), &mut toks, &mut errs);
            for w in toks.windows(2) { if w[1] <= w[0] { v.push(("C16", format!("tokens of the tree are not a subsequence of the input in order: {:?}", toks))); } }
            if toks != shifted.iter().cloned().filter(|t| toks.contains(t)).collect::<Vec<_>>() { v.push(("C16", "tree leaves differ from the shifted tokens".into())); }
            for w in errs.windows(2) { if pos(&w[0].1) > pos(&w[1].0) { v.push(("C16", format!("error-node spans overlap or are out of order: {:?}", errs.iter().map(|e| (pos(&e.0), pos(&e.1))).collect::<Vec<_>>()))); } }
            for e in &errs { if pos(&e.0) > pos(&e.1) { v.push(("C16", format!("error node with end before start: {:?}..{:?}", e.0, e.1))); } }
            for &p in &pulled {
                if toks.contains(&p) { continue; }
                let inside: Vec<_> = errs.iter().filter(|e| pos(&e.0) <= 2 * p as i64 && 2 * p as i64 + 1 <= pos(&e.1)).collect();
                if inside.len() != 1 { v.push(("C16", format!("input token {} is neither in the tree nor inside the span of exactly one error node (spans {:?}, tree tokens {:?})", p, errs.iter().map(|e| (pos(&e.0), pos(&e.1))).collect::<Vec<_>>(), toks))); }
                let in_lists = errs.iter().filter(|e| e.2.contains(&p)).count();
                if in_lists > 1 { v.push(("C16", format!("input token {} is in {} dropped_tokens lists", p, in_lists))); }
            }
            if !b.recovery && !errs.is_empty() { v.push(("C16", "error node without error recovery".into())); }
            if iter_end.is_none() { v.push(("C04", "accepted without reaching the end of the token stream".into())); }
        }
        Ok(Err(e)) => {
            match e {
                ParseError::UnrecognizedToken { token, expected } => {
                    match last_pulled {
                        None => v.push(("C04", "UnrecognizedToken although no token was pulled".into())),
                        Some(i) => {
                            // with recovery the reported token is the one at which the (last, unrecoverable) error was detected
                            if !b.recovery && (token.0 != Loc::TokL(i) || token.1 != Tok(i) || token.2 != Loc::TokR(i)) {
                                v.push(("C04", format!("UnrecognizedToken carries {:?} but the offending (last pulled) token is #{}", token, i)));
                            }
                            if token.0 != Loc::TokL((token.1).0) || token.2 != Loc::TokR((token.1).0) { v.push(("C04", format!("token and span do not belong together: {:?}", token))); }
                        }
                    }
                    if !b.recovery && pulled.len() != shifted.len() + 1 { v.push(("C04", format!("{} tokens pulled but {} shifted when the error was reported (over-read)", pulled.len(), shifted.len()))); }
                    if expected.len() != 1 || !expected_calls.iter().any(|(n, _, _)| format!("exp#{}", n) == expected[0]) { v.push(("C05", format!("expected list {:?} is not the one computed from the error stack", expected))); }
                }
                ParseError::UnrecognizedEof { location, expected } => {
                    let want = match last_pulled { Some(i) => Loc::TokR(i), None => Loc::Start };
                    if *location != want { v.push(("C04", format!("UnrecognizedEof at {:?}, want {:?} (end of the last token / start location)", location, want))); }
                    if iter_end.is_none() { v.push(("C04", "UnrecognizedEof before the stream ended".into())); }
                    if expected.len() != 1 || !expected_calls.iter().any(|(n, _, _)| format!("exp#{}", n) == expected[0]) { v.push(("C05", format!("expected list {:?} is not the one computed from the error stack", expected))); }
                }
                ParseError::ExtraToken { token } => {
                    // legitimate only when an accept reduction fired with a lookahead token
                    let ok = events.iter().any(|ev| matches!(ev, Ev::ReduceCall { outcome: "accept", la: Some(_), .. }));
                    if !ok { v.push(("C04", "ExtraToken without an accept reduction under a lookahead token".into())); }
                    if let Some(i) = last_pulled { if token.1 != Tok(i) { v.push(("C04", format!("ExtraToken carries {:?}, last pulled is #{}", token, i))); } }
                }
                ParseError::User { error } => {
                    match &injected_err {
                        None => v.push(("C17", format!("User error {:?} returned but none was injected", error))),
                        Some((_, UErr::Iter(n))) => { if *error != UErr::Iter(*n) { v.push(("C17", format!("stream error #{} was replaced by {:?}", n, error))); } }
                        Some((_, UErr::Action(_))) => { if !matches!(error, UErr::Action(_)) { v.push(("C17", format!("action error was replaced by {:?}", error))); } }
                    }
                }
                ParseError::InvalidToken { .. } => v.push(("C17", "InvalidToken out of nowhere".into())),
            }
            if let Some((eix, ie)) = &injected_err {
                match e { ParseError::User { .. } => {}, other => v.push(("C17", format!("an injected {:?} at event {} was turned into {:?}", ie, eix, std::mem::discriminant(other)))) }
            }
        }
    }
    v
}

// ------------------------------------------------------------------------------------------------
// exploration
// ------------------------------------------------------------------------------------------------
fn run_path(script: Vec<u8>, b: Bounds, z3: Z3) -> (Z3, Vec<u8>, Vec<Vec<u8>>, Vec<Ev>, Result<Result<ParseResult<SymDef>, String>, &'static str>, u64) {
    let mut eng = Eng { z3, b, terms: vec![], intern: HashMap::new(), depth: HashMap::new(), script, pos: 0, trace: vec![], pending: vec![], events: vec![],
        kind_memo: HashMap::new(), act_seen: HashMap::new(), pulled: 0, iter_done: false, reds_since_shift: 0, sim_reds: 0, last_query_depth: 1, ncalls: 0, nexpected: 0, nrecov: 0, last_reduce_origin: Origin::Tok, steps: 0, next_act: 0, decisions: 0 };
    eng.z3.send("(push)");
    ENG.with(|e| *e.borrow_mut() = Some(eng));
    let r = std::panic::catch_unwind(|| Parser::drive(SymDef, It));
    let mut eng = ENG.with(|e| e.borrow_mut().take().unwrap());
    eng.z3.send("(pop)");
    let res = match r {
        Ok(pr) => Ok(Ok(pr)),
        Err(p) => {
            if let Some(c) = p.downcast_ref::<Cut>() { Err(c.0) }
            else if let Some(s) = p.downcast_ref::<String>() { Ok(Err(s.clone())) }
            else if let Some(s) = p.downcast_ref::<&str>() { Ok(Err(s.to_string())) }
            else { Ok(Err("panic".to_string())) }
        }
    };
    (eng.z3, eng.trace, eng.pending, eng.events, res, eng.decisions)
}

fn jstr(s: &str) -> String { format!("\"{}\"", s.replace('\\', "\\\\").replace('"', "\\\"").replace('\n', " ")) }

fn main() {
    let args: Vec<String> = std::env::args().collect();
    let get = |name: &str, def: usize| -> usize { args.iter().position(|a| a == name).map(|i| args[i + 1].parse().unwrap()).unwrap_or(def) };
    let flag = |name: &str| args.iter().any(|a| a == name);
    let b = Bounds { tokens: get("--tokens", 2), reds: get("--reds", 1), maxpop: get("--maxpop", 2), recovery: flag("--recovery"), iter_err: flag("--iter-err"), user_err: flag("--user-err"), max_steps: get("--max-steps", 400), max_recoveries: get("--max-recoveries", 1) };
    let max_paths = get("--max-paths", 2_000_000);
    std::panic::set_hook(Box::new(|_| {}));
    let mut z3 = Z3::new();
    let t0 = std::time::Instant::now();
    let mut work: Vec<Vec<u8>> = vec![];
    if let Some(i) = args.iter().position(|a| a == "--replay") {
        let s: Vec<u8> = args[i + 1].split(',').filter(|x| !x.is_empty()).map(|x| x.parse().unwrap()).collect();
        let (_z, trace, _p, events, res, _) = run_path(s, b, z3);
        println!("trace: {:?}", trace);
        for e in &events { println!("  {:?}", e); }
        match &res { Ok(r) => { println!("result: {}", match r { Ok(Ok(_)) => "Ok".to_string(), Ok(Err(e)) => format!("{:?}", e), Err(m) => format!("PANIC {}", m) }); for (p, m) in check_path(&b, &events, Some(r)) { println!("VIOLATION {} {}", p, m); } }, Err(c) => { println!("cut: {}", c); for (p, m) in check_path(&b, &events, None) { println!("VIOLATION {} {}", p, m); } } }
        return;
    }
    work.push(vec![]);
    let (mut paths, mut cut, mut decisions) = (0u64, 0u64, 0u64);
    let mut outcomes: HashMap<String, u64> = HashMap::new();
    let mut cuts: HashMap<&'static str, u64> = HashMap::new();
    let mut viols: Vec<(String, String, String)> = vec![];
    let mut samples: Vec<String> = vec![];
    let mut maxlen = 0usize;
    while let Some(script) = work.pop() {
        if paths as usize >= max_paths { break; }
        let (z, trace, pending, events, res, d) = run_path(script, b, z3);
        z3 = z;
        decisions += d;
        for p in pending { work.push(p); }
        paths += 1;
        maxlen = maxlen.max(trace.len());
        match res {
            Err(c) => {
                cut += 1; *cuts.entry(c).or_insert(0) += 1;
                for (p, m) in check_path(&b, &events, None) {
                    if viols.len() < 50 { viols.push((p.to_string(), m, trace.iter().map(|c| c.to_string()).collect::<Vec<_>>().join(","))); }
                }
            }
            Ok(r) => {
                let kind = match &r { Ok(Ok(_)) => "Ok", Ok(Err(ParseError::UnrecognizedToken { .. })) => "UnrecognizedToken", Ok(Err(ParseError::UnrecognizedEof { .. })) => "UnrecognizedEof",
                    Ok(Err(ParseError::ExtraToken { .. })) => "ExtraToken", Ok(Err(ParseError::User { .. })) => "User", Ok(Err(ParseError::InvalidToken { .. })) => "InvalidToken", Err(_) => "PANIC" };
                *outcomes.entry(kind.to_string()).or_insert(0) += 1;
                let recov = events.iter().filter(|e| matches!(e, Ev::RecoverySymbol { .. })).count();
                if recov > 0 { *outcomes.entry(format!("{}+{}recoveries", kind, recov)).or_insert(0) += 1; }
                if samples.len() < 12 && (paths % 97 == 1 || recov > 0 && samples.len() < 6) {
                    samples.push(format!("{{\"decisions\":{:?},\"result\":{},\"events\":{}}}", trace, jstr(kind), events.len()));
                }
                for (p, m) in check_path(&b, &events, Some(&r)) {
                    if viols.len() < 50 { viols.push((p.to_string(), m, trace.iter().map(|c| c.to_string()).collect::<Vec<_>>().join(","))); }
                }
            }
        }
    }
    let exhausted = work.is_empty();
    let mut o: Vec<String> = outcomes.iter().map(|(k, v)| format!("{}:{}", jstr(k), v)).collect();
    o.sort();
    let mut c: Vec<String> = cuts.iter().map(|(k, v)| format!("{}:{}", jstr(k), v)).collect();
    c.sort();
    let vj: Vec<String> = viols.iter().map(|(p, m, t)| format!("{{\"property\":{},\"message\":{},\"decisions\":{}}}", jstr(p), jstr(m), jstr(t))).collect();
    println!("{{\"paths\":{},\"cut\":{},\"decisions\":{},\"max_decisions_per_path\":{},\"exhausted\":{},\"z3_queries\":{},\"z3_time_s\":{:.2},\"wall_s\":{:.2},\"outcomes\":{{{}}},\"cuts\":{{{}}},\"violations\":[{}],\"samples\":[{}]}}",
        paths, cut, decisions, maxlen, exhausted, z3.queries, z3.time, t0.elapsed().as_secs_f64(), o.join(","), c.join(","), vj.join(","), samples.join(","));
}
