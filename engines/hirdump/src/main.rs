//! hirdump: prints the regex-syntax HIR of patterns as JSON, parsed with exactly the configuration
//! the LALRPOP runtime uses (`MatcherBuilder::new`: unicode(true), utf8(true) with the default
//! `unicode` feature), and runs concrete strings through the real `lalrpop_util::lexer::Matcher`.
//!
//! stdin lines:
//!   H <json string>                    -> one line of JSON HIR (or {"error": "..."})
//!   E <json string>                    -> regex_syntax::escape of the string, as JSON string
//!   M <json array of [pattern, skip]> <json string input>
//!                                      -> tokens the real Matcher yields: [[start,index,end],...] + final status
use regex_syntax::hir::{Class, Hir, HirKind, Look};
use regex_syntax::ParserBuilder;
use std::io::BufRead;

fn js(s: &str) -> String {
    let mut o = String::from("\"");
    for c in s.chars() {
        match c {
            '"' => o.push_str("\\\""),
            '\\' => o.push_str("\\\\"),
            c if (c as u32) < 0x20 || (c as u32) > 0x7e => {
                let mut buf = [0u16; 2];
                for u in c.encode_utf16(&mut buf) { o.push_str(&format!("\\u{:04x}", u)); }
            }
            c => o.push(c),
        }
    }
    o.push('"');
    o
}

fn dump(h: &Hir) -> String {
    match h.kind() {
        HirKind::Empty => "{\"k\":\"empty\"}".to_string(),
        HirKind::Literal(l) => format!("{{\"k\":\"lit\",\"bytes\":[{}]}}", l.0.iter().map(|b| b.to_string()).collect::<Vec<_>>().join(",")),
        HirKind::Class(Class::Unicode(c)) => format!("{{\"k\":\"ucls\",\"r\":[{}]}}",
            c.ranges().iter().map(|r| format!("[{},{}]", r.start() as u32, r.end() as u32)).collect::<Vec<_>>().join(",")),
        HirKind::Class(Class::Bytes(c)) => format!("{{\"k\":\"bcls\",\"r\":[{}]}}",
            c.ranges().iter().map(|r| format!("[{},{}]", r.start(), r.end())).collect::<Vec<_>>().join(",")),
        HirKind::Look(l) => format!("{{\"k\":\"look\",\"what\":\"{:?}\"}}", l),
        HirKind::Repetition(r) => format!("{{\"k\":\"rep\",\"min\":{},\"max\":{},\"greedy\":{},\"sub\":{}}}",
            r.min, match r.max { Some(m) => m.to_string(), None => "null".to_string() }, r.greedy, dump(&r.sub)),
        HirKind::Capture(c) => format!("{{\"k\":\"cap\",\"name\":{},\"sub\":{}}}",
            match &c.name { Some(n) => js(n), None => "null".to_string() }, dump(&c.sub)),
        HirKind::Concat(v) => format!("{{\"k\":\"cat\",\"subs\":[{}]}}", v.iter().map(dump).collect::<Vec<_>>().join(",")),
        HirKind::Alternation(v) => format!("{{\"k\":\"alt\",\"subs\":[{}]}}", v.iter().map(dump).collect::<Vec<_>>().join(",")),
    }
}

// minimal JSON string / array-of-pairs reader (inputs are produced by python's json.dumps)
struct P<'a> { s: &'a [u8], i: usize }
impl<'a> P<'a> {
    fn ws(&mut self) { while self.i < self.s.len() && (self.s[self.i] as char).is_whitespace() { self.i += 1; } }
    fn string(&mut self) -> String {
        self.ws(); assert!(self.s[self.i] == b'"'); self.i += 1;
        let mut units: Vec<u16> = Vec::new();
        loop {
            let c = self.s[self.i];
            if c == b'"' { self.i += 1; break; }
            if c == b'\\' {
                let e = self.s[self.i + 1]; self.i += 2;
                match e {
                    b'n' => units.push(10), b't' => units.push(9), b'r' => units.push(13), b'b' => units.push(8), b'f' => units.push(12),
                    b'u' => { let h = std::str::from_utf8(&self.s[self.i..self.i + 4]).unwrap(); units.push(u16::from_str_radix(h, 16).unwrap()); self.i += 4; }
                    x => units.push(x as u16),
                }
            } else {
                // raw utf-8 (python emits ASCII only with ensure_ascii)
                units.push(c as u16); self.i += 1;
            }
        }
        String::from_utf16(&units).unwrap()
    }
    fn boolean(&mut self) -> bool { self.ws(); if self.s[self.i..].starts_with(b"true") { self.i += 4; true } else { self.i += 5; false } }
    fn expect(&mut self, c: u8) { self.ws(); assert!(self.s[self.i] == c, "expected {}", c as char); self.i += 1; }
    fn peek(&mut self) -> u8 { self.ws(); self.s[self.i] }
}

fn main() {
    let stdin = std::io::stdin();
    for line in stdin.lock().lines() {
        let line = line.unwrap();
        if line.len() < 2 { continue; }
        let (cmd, rest) = line.split_at(2);
        let mut p = P { s: rest.as_bytes(), i: 0 };
        match cmd.trim() {
            "H" => {
                let pat = p.string();
                let r = ParserBuilder::new().utf8(true).unicode(true).build().parse(&pat);
                match r { Ok(h) => println!("{}", dump(&h)), Err(e) => println!("{{\"error\":{}}}", js(&format!("{}", e))) }
            }
            "E" => { let s = p.string(); println!("{}", js(&regex_syntax::escape(&s))); }
            "M" => {
                p.expect(b'[');
                let mut pats: Vec<(String, bool)> = Vec::new();
                while p.peek() != b']' {
                    p.expect(b'['); let s = p.string(); p.expect(b','); let b = p.boolean(); p.expect(b']');
                    pats.push((s, b));
                    if p.peek() == b',' { p.expect(b','); }
                }
                p.expect(b']');
                let input = p.string();
                match lalrpop_util::lexer::MatcherBuilder::new(pats.iter().map(|(s, b)| (s.as_str(), *b))) {
                    Err(e) => println!("{{\"build_error\":{}}}", js(&format!("{}", e))),
                    Ok(b) => {
                        let m = b.matcher::<()>(&input);
                        let mut out: Vec<String> = Vec::new();
                        let mut status = "eof".to_string();
                        let mut count = 0;
                        for t in m {
                            count += 1;
                            if count > 10000 { status = "runaway".to_string(); break; }
                            match t {
                                Ok((s, tok, e)) => out.push(format!("[{},{},{}]", s, tok.0, e)),
                                Err(lalrpop_util::ParseError::InvalidToken { location }) => { status = format!("invalid@{}", location); break; }
                                Err(_) => { status = "othererr".to_string(); break; }
                            }
                        }
                        println!("{{\"tokens\":[{}],\"status\":\"{}\"}}", out.join(","), status);
                    }
                }
            }
            _ => println!("{{\"error\":\"bad command\"}}"),
        }
    }
}
