"""C01 – generated parsers accept exactly the language of the start symbol (engine E1)."""
from vlib import e1, e1run
from corpus import base

PID = "C01"

FUNCTIONS = ["generated __action/__ACTION", "generated __EOF_ACTION", "generated __goto", "generated __simulate_reduce",
             "generated __token_to_integer",
             "(producer) lalrpop::lr1::{build, lane_table, build_lalr}, lr1::codegen::parse_table (run natively, output encoded)"]
ASSUME = [
    "token kinds are the active declared terminals of the corpus grammar; token payloads are irrelevant to the tables",
    "LR run semantics (lr_run, 40 lines, injected) is the specification of how a driver uses the tables; its equivalence "
    "with lalrpop_util::state_machine::Parser is checked separately (C04/C08/C16 driver engine) and by native validation here",
    "oracle = CYK over a CNF of the specification CFG (corpus/cfg.py), cross-checked in setup against exhaustive derivation",
    "unwinding assertions on; fuel/stack bounds are asserted unreachable, not assumed",
]


def jobs(tier, kinds=("lang",), n_quick=5, n_thorough=7, algos=("lane", "lr1", "lalr"), stretch=True):
    """stretch: raise N to the grammar's min_n (shortest interesting sentences); otherwise such grammars are skipped."""
    n = n_quick if tier == "quick" else n_thorough
    out = []
    for g in base.base_grammars():
        if not stretch and getattr(g, "min_n", 0) > n:
            continue
        if getattr(g, "heavy", False) and tuple(kinds) != ("lang",):
            continue
        for algo in algos:
            if getattr(g, "heavy", False) and tier == "quick":
                continue        # heavy grammars (i16 tables): thorough tier only
            if getattr(g, "min_n", 0) >= 7 and tier == "quick" and algo != "lane":
                continue        # long-sentence grammars: one configuration in the quick tier
            if algo == "lalr" and g.not_lalr:
                continue
            for s in g.pub_nts():
                out.append(e1.Job(g, frozenset(), algo, s, max(n, getattr(g, "min_n", 0)), list(kinds)))
    return out


def sugar_jobs(tier):
    """C01 also quantifies over grammars with macros, repetitions, inlining and precedence: a few of each (their own properties go deeper)"""
    from corpus import sugar
    from props import sugarprops as SP
    gs = sugar.prec_grammars(0)[:3] + sugar.macro_grammars(0)[:3] + [g for g in sugar.inline_variants(0) if set(g.name.split("_")[-1]) == {"1"}]
    return SP.lang_jobs(gs, tier, algos_quick=("lane",), algos_thorough=("lane", "lr1"))


def run(tier):
    return e1run.run_property(PID, tier, jobs(tier) + sugar_jobs(tier), native_len=3 if tier == "quick" else 4,
                              timeout_s=600 if tier == "quick" else 3000, functions=FUNCTIONS, assumptions=ASSUME, ascent=True)


def replay(path):
    return e1run.replay(PID, path)
