"""C04 – syntax errors are reported at the first token that cannot continue the input (E1 tables half;
token/location/pull-count half: driver engine)."""
from vlib import e1run
from props import c01

PID = "C04"
ASSUME = c01.ASSUME + [
    "viable-prefix oracle = CYK over CNF(Pre(G)) of the reduced specification grammar (the property's own premise: every nonterminal derives some string)",
    "exact token / span / UnrecognizedEof location are compared on the native validation runs (all inputs up to the native bound, gapped locations 10i+3..10i+7) "
    "and on every replayed counterexample; for all inputs they follow from the driver engine",
]


def run(tier):
    rc = e1run.run_property(PID, tier, c01.jobs(tier, kinds=("errpos",), n_quick=4, n_thorough=6, stretch=False), native_len=3 if tier == "quick" else 4,
                              timeout_s=600 if tier == "quick" else 3000, functions=c01.FUNCTIONS, assumptions=ASSUME, deep=True, ascent=True)
    from vlib import e3
    return e3.add_stage(PID, tier, rc, ["plain", "errors"], {"C04", "C01"})


def replay(path):
    return e1run.replay(PID, path)
