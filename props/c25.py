"""C25 – hygiene (partial: nonterminal / macro / macro-parameter names): renaming changes neither the
generator's verdict nor the language of the tables (E1)."""
import random
import time
from vlib import common as K, e1, e1run
from corpus import sugar, base, gram as G
from props import sugarprops as SP, c01

PID = "C25"
ASSUME = c01.ASSUME + [
    "renamings are injective maps of nonterminal, macro and macro-parameter names into an adversarial pool (names starting with `__`, names "
    "LALRPOP derives internally such as __action0/__Symbol/__parse__E, and `Name<level>` next to a precedence-annotated `Name`); bindings, grammar "
    "parameters and type parameters are not renamed (corpus grammars have none) – that part of the property is not covered",
    "'output compiles' is observed (Kani has to compile the generated module) but is rustc's verdict, not a solver result",
    "the specification CFG of the renamed grammar is the renamed specification CFG, so the verdict must be 'accepted' and the language unchanged",
]


def variants(seed):
    rnd = random.Random(4242 + seed)
    bases = {g.name: g for g in base.base_grammars() + sugar.prec_grammars(0) + sugar.macro_grammars(0)}
    out = []
    pool = list(sugar.ADVERSARIAL)
    # fixed adversarial cases
    out.append(sugar.rename_grammar(bases["expr"], {"E": "__action0", "T": "__Symbol", "F": "__0"}, "ren_expr_a"))
    out.append(sugar.rename_grammar(bases["multi_pub"], {"P": "__parse__E", "Q": "__StateMachine", "R": "__reduce1"}, "ren_multi_a"))
    # `Name<level>` collision: prec_interleaved generates helper levels for E (levels 0, 3, 7)
    out.append(sugar.rename_grammar(bases["prec_interleaved"], {"Args": "E3", "L": "E0"}, "ren_prec_levels"))
    out.append(sugar.rename_grammar(bases["mac_nested"], {"Pair": "__Pair", "List": "__action1", "Par": "__1", "A": "__A", "B": "__2", "T": "__TOKEN"}, "ren_mac_a"))
    # two precedence-annotated nonterminals whose generated level names would coincide: `A` level 12 and `A1` level 2 both want `A12`
    from corpus.sugar import P
    from corpus.gram import Grammar, NT, Alt
    from corpus.base import terms, S as SY, A as AL
    two = Grammar("prec_two", terms("n m + * ( ) ;"), [
        NT("Top", [AL("Pq", ";", "Qq")], pub=True),
        NT("Pq", [P(12, "n"), P(12, "(", "Pq", ")"), P(20, "Pq", "+", "Pq", assoc="left")]),
        NT("Qq", [P(2, "m"), P(3, "Qq", "*", "Qq", assoc="right")]),
    ], tags=["two precedence-annotated nonterminals"])
    out.append(two)
    out.append(sugar.rename_grammar(two, {"Pq": "A", "Qq": "A1"}, "ren_prec_two"))
    # seeded
    for i, name in enumerate(["stmt", "list2", "opt_tail", "mac_forward"]):
        g = bases[name]
        names = [n.name for n in g.nts]
        params = sorted({p for n in g.nts for p in n.params})
        picks = rnd.sample(pool, len(names) + len(params))
        mapping = dict(zip(names + params, picks))
        out.append(sugar.rename_grammar(g, mapping, "ren_%s_s%d" % (name, seed % 1000)))
    return out


def run(tier):
    gs = variants(K.seed())
    known = K.load_known_findings().get(PID, {})
    # verdict half: every renamed grammar must still be accepted (the original is)
    viol = 0
    keep = []
    for g in gs:
        r = K.run_generator(G.to_lalrpop(g), g.name)
        if r.ok:
            keep.append(g)
            continue
        key = "verdict:%s" % g.name
        msg = (r.out.strip().splitlines() or ["?"])[-1]
        if key in known:
            print("KNOWN-FINDING: property=%s %s: renamed grammar rejected by the generator (%s)" % (PID, key, msg))
            continue
        viol += 1
        path = K.save_replay(PID, key.replace(":", "_"), {"grammar.lalrpop": G.to_lalrpop(g), "generator.out": r.out,
                                                         "README": "the same grammar before renaming is accepted; tags: %s\n" % g.tags})
        print("VIOLATION property=%s replay=%s" % (PID, path))
        print("  renamed grammar %s is rejected by the generator although the original is accepted: %s" % (g.name, msg))
    rc = SP.run_lang(PID, tier, SP.lang_jobs(keep, tier), ASSUME)
    return 1 if viol else rc


def replay(path):
    return e1run.replay(PID, path)
