"""C25 – hygiene (partial: nonterminal / macro / macro-parameter names): renaming changes neither the
generator's verdict nor the language of the tables (E1)."""
import random
import time
from vlib import common as K, e1, e1run
from corpus import sugar, base, gram as G
from props import sugarprops as SP, c01

PID = "C25"
ASSUME = c01.ASSUME + [
    "renamings are injective maps of nonterminal, macro and macro-parameter names into an adversarial pool (names starting with `__`, names "
    "LALRPOP derives internally such as __action0/__Symbol/__parse__E, and `Name<level>` next to a precedence-annotated `Name`); bindings, grammar "
    "parameters and type parameters are not renamed (corpus grammars have none) – that part of the property is not covered",
    "'output compiles' is observed (Kani has to compile the generated module) but is rustc's verdict, not a solver result",
    "the specification CFG of the renamed grammar is the renamed specification CFG, so the verdict must be 'accepted' and the language unchanged",
]


def variants(seed):
    rnd = random.Random(4242 + seed)
    bases = {g.name: g for g in base.base_grammars() + sugar.prec_grammars(0) + sugar.macro_grammars(0)}
    out = []
    pool = list(sugar.ADVERSARIAL)
    # fixed adversarial cases
    out.append(sugar.rename_grammar(bases["expr"], {"E": "__action0", "T": "__Symbol", "F": "__0"}, "ren_expr_a"))
    out.append(sugar.rename_grammar(bases["multi_pub"], {"P": "__parse__E", "Q": "__StateMachine", "R": "__reduce1"}, "ren_multi_a"))
    # `Name<level>` collision: prec_interleaved generates helper levels for E (levels 0, 3, 7)
    out.append(sugar.rename_grammar(bases["prec_interleaved"], {"Args": "E3", "L": "E0"}, "ren_prec_levels"))
    out.append(sugar.rename_grammar(bases["mac_nested"], {"Pair": "__Pair", "List": "__action1", "Par": "__1", "A": "__A", "B": "__2", "T": "__TOKEN"}, "ren_mac_a"))
    # two precedence-annotated nonterminals whose generated level names would coincide: `A` level 12 and `A1` level 2 both want `A12`
    from corpus.sugar import P
    from corpus.gram import Grammar, NT, Alt
    from corpus.base import terms, S as SY, A as AL
    two = Grammar("prec_two", terms("n m + * ( ) ;"), [
        NT("Top", [AL("Pq", ";", "Qq")], pub=True),
        NT("Pq", [P(12, "n"), P(12, "(", "Pq", ")"), P(20, "Pq", "+", "Pq", assoc="left")]),
        NT("Qq", [P(2, "m"), P(3, "Qq", "*", "Qq", assoc="right")]),
    ], tags=["two precedence-annotated nonterminals"])
    out.append(two)
    out.append(sugar.rename_grammar(two, {"Pq": "A", "Qq": "A1"}, "ren_prec_two"))
    # seeded
    for i, name in enumerate(["stmt", "list2", "opt_tail", "mac_forward"]):
        g = bases[name]
        names = [n.name for n in g.nts]
        params = sorted({p for n in g.nts for p in n.params})
        picks = rnd.sample(pool, len(names) + len(params))
        mapping = dict(zip(names + params, picks))
        out.append(sugar.rename_grammar(g, mapping, "ren_%s_s%d" % (name, seed % 1000)))
    return out


COMPILE_TEMPLATE = """use crate::Tok;
grammar(@PARAM@: u8);
extern { type Location = usize; type Error = u8; enum Tok { "a" => Tok::A, "n" => Tok::N(<u8>), "+" => Tok::Plus, "," => Tok::Comma } }
pub S: usize = { <@XS@:"a"*> <@Y@:E> => @XS@.len() + @PARAM@ as usize + @Y@ as usize };
E: u8 = { <@L@:E> "+" <@R@:T> => @L@.wrapping_add(@R@), T };
T: u8 = { "n", <@M@:("," <"n">)+> => @M@.len() as u8 };
"""

COMPILE_VARIANTS = [
    # name, {placeholder: identifier}
    ("orig", {"PARAM": "scale", "XS": "xs", "Y": "y", "L": "l", "R": "r", "M": "m"}),
    ("under", {"PARAM": "__scale", "XS": "__xs", "Y": "__0", "L": "__1", "R": "__sym0", "M": "__nt"}),
    ("internal", {"PARAM": "__lookahead", "XS": "__symbols", "Y": "__start", "L": "__end", "R": "__states", "M": "__tokens"}),
    ("param_v", {"PARAM": "v", "XS": "xs", "Y": "y", "L": "l", "R": "r", "M": "m"}),
    ("param_e", {"PARAM": "e", "XS": "xs", "Y": "y", "L": "l", "R": "r", "M": "m"}),
    ("bind_v", {"PARAM": "scale", "XS": "v", "Y": "e", "L": "l", "R": "r", "M": "m"}),
]


def compile_stage():
    """'renaming changes ... nor whether the output compiles': observed with rustc (not a solver verdict): the same grammar under
    injective renamings of its grammar parameter and bindings must still be accepted and the generated module must still compile."""
    import re
    from vlib import common as K2
    crate = K.NativeCrate("c25_compile")
    mods, results = [], {}
    for name, m in COMPILE_VARIANTS:
        text = COMPILE_TEMPLATE
        for k, v in m.items():
            text = text.replace("@%s@" % k, v)
        gen = K.run_generator(text, "cg_" + name)
        results[name] = {"text": text, "accepted": gen.ok, "compiles": None, "out": gen.out[-600:]}
        if gen.ok:
            crate.write("cg_%s.rs" % name, gen.rs)
            mods.append("#[allow(unused, non_snake_case)] mod cg_%s;" % name)
    crate.write("main.rs", "#[derive(Clone, Debug, PartialEq)] pub enum Tok { A, N(u8), Plus, Comma }\n" + "\n".join(mods) + "\nfn main() {}\n")
    exe, out = crate.build()
    for name in results:
        if results[name]["accepted"]:
            errs = [l for l in out.splitlines() if re.search(r"-->\s*src/cg_%s\.rs" % name, l)]
            results[name]["compiles"] = len(errs) == 0
            m = re.search(r"(error\[E\d+\][^\n]*\n[^\n]*src/cg_%s\.rs[^\n]*)" % name, out)
            results[name]["error"] = m.group(1) if m else ""
    return results


def run(tier):
    gs = variants(K.seed())
    known = K.load_known_findings().get(PID, {})
    # verdict half: every renamed grammar must still be accepted (the original is)
    viol = 0
    keep = []
    for g in gs:
        r = K.run_generator(G.to_lalrpop(g), g.name)
        if r.ok:
            keep.append(g)
            continue
        key = "verdict:%s" % g.name
        msg = (r.out.strip().splitlines() or ["?"])[-1]
        if key in known:
            print("KNOWN-FINDING: property=%s %s: renamed grammar rejected by the generator (%s)" % (PID, key, msg))
            continue
        viol += 1
        path = K.save_replay(PID, key.replace(":", "_"), {"grammar.lalrpop": G.to_lalrpop(g), "generator.out": r.out,
                                                         "README": "the same grammar before renaming is accepted; tags: %s\n" % g.tags})
        print("VIOLATION property=%s replay=%s" % (PID, path))
        print("  renamed grammar %s is rejected by the generator although the original is accepted: %s" % (g.name, msg))
    rc = SP.run_lang(PID, tier, SP.lang_jobs(keep, tier), ASSUME)
    # compile differential on parameter / binding renamings (observed with rustc)
    comp = compile_stage()
    base_ok = comp["orig"]["accepted"] and comp["orig"]["compiles"]
    if not base_ok:
        print("INCONCLUSIVE: the un-renamed compile-stage grammar does not build: %s" % comp["orig"])
        rc = max(rc, 2) if rc != 1 else 1
    else:
        for name, r in comp.items():
            if name == "orig":
                continue
            if r["accepted"] and r["compiles"]:
                continue
            key = "compile:%s" % name
            what = ("rejected by the generator (%s)" % r["out"].strip().splitlines()[-1:] if not r["accepted"] else "generated module does not compile: %s" % r["error"].replace("\n", " "))
            if key in known:
                print("KNOWN-FINDING: property=%s renaming %s of the parameter/bindings grammar: %s" % (PID, name, what))
                continue
            viol += 1
            path = K.save_replay(PID, key.replace(":", "_"), {"grammar.lalrpop": r["text"], "original.lalrpop": comp["orig"]["text"], "result.txt": what})
            print("VIOLATION property=%s replay=%s" % (PID, path))
            print("  renaming %s: %s (the same grammar with ordinary names is accepted and compiles)" % (name, what))
    import json, os
    evp = K.evidence_path(PID)
    ev = json.load(open(evp))
    ev["coverage"]["compile_differential"] = {k: {"accepted": v["accepted"], "compiles": v["compiles"]} for k, v in comp.items()}
    ev["assumptions"].append("compile differential (grammar parameter and bindings renamed into `__`-prefixed / internal-looking / `v`,`e` names): observed with rustc, not a solver verdict")
    ev["violations"] = ev.get("violations", 0) + viol
    json.dump(ev, open(evp, "w"), indent=1)
    return 1 if viol else rc


def replay(path):
    return e1run.replay(PID, path)
