"""C09 – longest match with the documented precedence (engine E4, generator side + native loop validation)."""
import itertools
import json
import os
import time
import z3

from vlib import common as K, lexsym as X
from corpus import lexers as LX
from props import c10, c11

PID = "C09"
WS = r"\s+"
INF = 10 ** 6


def spec_lexer(spec):
    """-> list of (hir, prec, target) per the documentation, implicit skip included."""
    entries, implicit = LX.documented_entries(spec)
    out = []
    for e in entries:
        out.append((c11.entry_hir(e), e.prec, "skip" if e.target == "skip" else e.target[1], e.text))
    if implicit:
        out.append((X.parse(WS), (INF, 0), "skip", WS))
    return out


def impl_lexer(rs):
    lx = X.extract_lexer(rs)
    out = []
    for i, (pat, skip) in enumerate(lx["strs"]):
        if skip:
            tgt = "skip"
        elif i in lx["tok2term"]:
            tgt = X.terminal_key(lx["terminals"][lx["tok2term"][i]])
        else:
            tgt = ("unmapped", i)
        out.append((X.parse(pat), i, tgt, pat))
    return out, lx


def spec_first_token(spec_l, text):
    """Concrete reference: longest prefix (>=1 char) matched by any documented pattern, best precedence."""
    for l in range(len(text), 0, -1):
        hits = [(prec, tgt, src) for (h, prec, tgt, src) in spec_l if X.member(text[:l], h)]
        if hits:
            hits.sort(key=lambda x: x[0])
            return l, hits[-1][1], hits
    return 0, None, []


def spec_tokenize(spec_l, text):
    """-> (tokens [(byte_start, target, byte_end)], status)"""
    pos = 0
    toks = []
    while pos < len(text):
        l, tgt, _ = spec_first_token(spec_l, text[pos:])
        if l == 0:
            return toks, "invalid@%d" % len(text[:pos].encode("utf-8"))
        if tgt != "skip":
            toks.append((len(text[:pos].encode("utf-8")), tgt, len(text[:pos + l].encode("utf-8"))))
        pos += l
    return toks, "eof"


def impl_tokenize(lx, impl_l, text):
    r = X.hd().match(lx["strs"], text)
    toks = [(s, impl_l[i][2], e) for (s, i, e) in r["tokens"]]
    return toks, r["status"]


def tkey(t):
    return json.dumps(t, sort_keys=True) if not isinstance(t, str) else t


def run(tier):
    t0 = time.time()
    Lmax = 3 if tier == "quick" else 5
    known = K.load_known_findings().get(PID, {})
    solver = X.Solver(timeout_ms=120000 if tier == "quick" else 900000)
    samples, inconclusive, violations = [], [], []
    disagreements = 0
    traces = 0
    gaps_run = 0
    programs = 0
    rspecs = LX.random_specs(K.seed() + 17, 40 if tier == "quick" else 600)
    rnames = {x.name for x in rspecs}
    for spec in LX.lexer_specs(K.seed()) + rspecs:
        want, _ = c11.spec_verdict(spec, solver)
        if want != "accept":
            continue
        gen = K.run_generator(LX.to_lalrpop(spec), spec.name)
        if not gen.ok:
            if spec.name not in rnames:
                inconclusive.append("%s: generator rejected an unambiguous terminal set (C11's subject): %s" % (spec.name, gen.out.strip().splitlines()[-1:]))
            continue
        programs += 1
        sl = spec_lexer(spec)
        il, lx = impl_lexer(gen.rs)
        if any(X.member("", h) for (h, _, _, _) in sl):
            if spec.name not in rnames:
                inconclusive.append("%s: a corpus pattern matches the empty string (C08's subject)" % spec.name)
            continue
        al = X.Alphabet([h for (h, _, _, _) in sl] + [h for (h, _, _, _) in il])
        s = z3.String("s")
        cons = [z3.InRe(s, z3.Star(al.valid_char())), z3.Length(s) <= Lmax, z3.Length(s) >= 1]
        tgts = sorted({tkey(t) for (_, _, t, _) in sl} | {tkey(t) for (_, _, t, _) in il})
        tid = {t: i + 1 for i, t in enumerate(tgts)}
        sre = [X.hir_to_z3(h, al) for (h, _, _, _) in sl]
        ire = [X.hir_to_z3(h, al) for (h, _, _, _) in il]

        def pref(l):
            return z3.SubString(s, 0, l)
        A, B, TA, TB = {}, {}, {}, {}
        for l in range(1, Lmax + 1):
            ok = z3.Length(s) >= l
            mi = [z3.And(ok, z3.InRe(pref(l), r)) for r in ire]
            ms = [z3.And(ok, z3.InRe(pref(l), r)) for r in sre]
            A[l] = z3.Or(*mi)
            B[l] = z3.Or(*ms)
            # implementation: the largest pattern index among the matches
            t = z3.IntVal(0)
            for i in range(len(il)):
                t = z3.If(mi[i], z3.IntVal(tid[tkey(il[i][2])]), t)
            TA[l] = t
            # documentation: the highest precedence among the matches
            order = sorted(range(len(sl)), key=lambda j: sl[j][1])
            t = z3.IntVal(0)
            for j in order:
                t = z3.If(ms[j], z3.IntVal(tid[tkey(sl[j][2])]), t)
            TB[l] = t
        Li, Ls, Ti, Ts = z3.Ints("Li Ls Ti Ts")
        for (Lv, Tv, M, T) in ((Li, Ti, A, TA), (Ls, Ts, B, TB)):
            none = z3.And(*[z3.Not(M[l]) for l in range(1, Lmax + 1)])
            cons.append((Lv == 0) == none)
            cons.append(z3.Implies(Lv == 0, Tv == 0))
            for l in range(1, Lmax + 1):
                longest = z3.And(M[l], *[z3.Not(M[k]) for k in range(l + 1, Lmax + 1)])
                cons.append((Lv == l) == longest)
                cons.append(z3.Implies(Lv == l, Tv == T[l]))
            cons.append(z3.And(Lv >= 0, Lv <= Lmax))
        r, m = solver.check(*cons, z3.Or(Li != Ls, Ti != Ts))
        rec = {"terminal_set": spec.name, "patterns_emitted": [p for (_, _, _, p) in il], "L": Lmax, "verdict": str(r)}
        if spec.name not in rnames or len(samples) < 60:
            samples.append(rec)
        if r == z3.sat:
            disagreements += 1
            wit = al.decode(X.z3_unescape(X.model_string(m, s)))
            st, sstat = spec_tokenize(sl, wit)
            it, istat = impl_tokenize(lx, il, wit)
            if (st, sstat) != (it, istat):
                violations.append(("%s" % spec.name, "terminal set %s, input %r: documented tokenization %s/%s, real generated lexer gives %s/%s" %
                                   (spec.name, wit, st, sstat, it, istat), {"grammar": LX.to_lalrpop(spec), "input": wit, "documented": [st, sstat], "observed": [it, istat]}))
            else:
                inconclusive.append("%s: z3 witness %r does not reproduce (documented and real tokenization agree)" % (spec.name, wit))
        elif r != z3.unsat:
            if spec.name not in rnames:
                inconclusive.append("%s: z3 gave no answer within the timeout (L=%d)" % (spec.name, Lmax))
            else:
                programs -= 1     # an undecided random set is dropped, not counted
        # ---- solver-generated inputs for the runtime loop: strings with a GAP (some pattern matches a prefix of length l1, none matches
        # the prefix of length l2 > l1, some pattern matches the prefix of length l3 > l2): longest match must keep scanning through
        # non-accepting DFA states.  z3 finds them, the real Matcher runs them (and the witness followed by each representative).
        gap_cases = []
        for (l1, l2, l3) in itertools.combinations(range(1, Lmax + 1), 3):
            gr, gm = solver.check(*cons, A[l1], z3.Not(A[l2]), A[l3])
            if gr == z3.sat:
                gw = al.decode(X.z3_unescape(X.model_string(gm, s)))
                gap_cases.append(gw)
        for gw in gap_cases:
            for text in [gw] + [gw + al.decode(al.rep(b)) for b in al.valid_blocks[:4]]:
                st, sstat = spec_tokenize(sl, text)
                it, istat = impl_tokenize(lx, il, text)
                traces += 1
                gaps_run += 1
                if (st, sstat) != (it, istat):
                    violations.append(("%s:gap" % spec.name, "terminal set %s, input %r (longest match lies beyond a non-matching prefix): documented tokenization %s/%s, real generated lexer gives %s/%s" %
                                       (spec.name, text, st, sstat, it, istat), {"grammar": LX.to_lalrpop(spec), "input": text, "documented": [st, sstat], "observed": [it, istat]}))
                    break
        # ---- native validation of the loop: all strings up to length 3 over block representatives + separators
        reps = []
        for b in al.valid_blocks:
            reps.append(al.decode(al.rep(b)))
        reps = reps[:7]
        for l in range(0, 4 if len(reps) <= 5 else 3):
            for w in itertools.product(reps, repeat=l):
                text = "".join(w)
                st, sstat = spec_tokenize(sl, text)
                it, istat = impl_tokenize(lx, il, text)
                traces += 1
                if (st, sstat) != (it, istat):
                    violations.append(("%s:native" % spec.name, "terminal set %s, input %r: documented tokenization %s/%s, real generated lexer gives %s/%s" %
                                       (spec.name, text, st, sstat, it, istat), {"grammar": LX.to_lalrpop(spec), "input": text, "documented": [st, sstat], "observed": [it, istat]}))
                    break
            else:
                continue
            break
    return c10.finish(PID, tier, t0, known, violations, inconclusive, samples, programs, programs, disagreements, solver,
                      functions=["lalrpop::normalize::token_check::{MatchBlock::new, add_match_entry, add_literal_from_grammar, construct} (run natively; ordering/precedence is the encoded object)",
                                 "lalrpop::lexer::intern_token::compile (emitted __strs order, skip flags, implicit \\s+)", "generated __token_to_integer / __TERMINAL (Token index -> terminal)",
                                 "lalrpop_util::lexer::Matcher::next (native runs only: all strings up to length 3 over the class representatives, spans as byte offsets)"],
                      assumptions=["winner of the implementation := longest prefix matched by any emitted pattern, then the LARGEST pattern index (what Matcher::next computes); winner of the documentation := "
                                   "longest prefix matched by any source pattern, then earlier rung > later, literal > regex, implicit \\s+ skip above all when no skip rule exists",
                                   "one lexing step from an arbitrary position is decided symbolically (the Matcher keeps no state but the remaining text); whole tokenizations, byte-offset spans, skipping and "
                                   "InvalidToken positions are compared on native runs; among them solver-generated inputs whose longest match lies beyond a non-matching prefix", "patterns matching the empty string are excluded here (C08)",
                                   "regex semantics = regex-syntax HIR; regex-automata internals trusted"],
                      bounds={"input_code_points": Lmax, "outside": "inputs longer than %d code points in the symbolic query; terminal sets outside the corpus" % Lmax},
                      extra={"traces_validated_against_impl": traces, "solver_generated_gap_inputs_run_natively": gaps_run})


def replay(path):
    case = json.load(open(os.path.join(path, "case.json")))
    gen = K.run_generator(case["grammar"], "replay")
    if not gen.ok:
        print("generator rejects the grammar now")
        return 0
    il, lx = impl_lexer(gen.rs)
    it, istat = impl_tokenize(lx, il, case["input"])
    print("documented:", case["documented"], " observed now:", [list(map(list, it)) if it else it, istat])
    return 0 if json.loads(json.dumps([it, istat])) == case["documented"] else 1
