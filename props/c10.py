"""C10 – literal and regex terminals keep exactly their own language through the pipeline (engine E4)."""
import time
import z3

from vlib import common as K, lexsym as X
from corpus import lexers as LX

PID = "C10"


def equiv_query(solver, ha, hb, extra=()):
    """Language equivalence of two HIRs over ALL strings (alphabet-compressed).
    -> (verdict, witness): verdict in {"equal", "differ", "unknown"}"""
    al = X.Alphabet([ha, hb], extra)
    ra, rb = X.hir_to_z3(ha, al), X.hir_to_z3(hb, al)
    s = z3.String("w")
    valid = z3.InRe(s, z3.Star(al.valid_char()))
    r, m = solver.check(valid, z3.Xor(z3.InRe(s, ra), z3.InRe(s, rb)))
    if r == z3.unsat:
        return "equal", None
    if r == z3.sat:
        return "differ", al.decode(X.z3_unescape(X.model_string(m, s)))
    return "unknown", None


def lit_hir(text):
    return {"k": "lit", "bytes": list(text.encode("utf-8"))} if text else {"k": "empty"}


def full_match(pattern, text):
    """Does the real runtime (MatcherBuilder/Matcher) match exactly `text` with this single pattern?"""
    r = X.hd().match([(pattern, False)], text)
    if "build_error" in r:
        return None
    n = len(text.encode("utf-8"))
    return r["tokens"] == [[0, 0, n]] and r["status"] == "eof" if text else None


def run(tier):
    t0 = time.time()
    thorough = tier != "quick"
    known = K.load_known_findings().get(PID, {})
    solver = X.Solver(timeout_ms=30000 if not thorough else 120000)
    lits = LX.c10_literals(K.seed(), thorough)
    regs = LX.c10_regexes(K.seed(), thorough)
    c10_fixed = set(regs)
    import random as _random
    _rnd = _random.Random(31337 + K.seed())
    seen_r = set(regs)
    nrand = 400 if thorough else 40
    while nrand > 0:
        rr = LX.random_regex(_rnd, _rnd.randint(1, 3))
        if rr not in seen_r and rr.strip() != "":
            seen_r.add(rr)
            regs.append(rr)
            nrand -= 1
    # seeded random literal texts (printable ASCII incl. metacharacters, some non-ASCII)
    pool = [chr(c) for c in range(0x21, 0x7f)] + list("éüλ日😀ß")
    for _ in range(200 if thorough else 30):
        t = "".join(_rnd.choice(pool) for _ in range(_rnd.randint(1, 5)))
        if t not in lits:
            lits.append(t)
    samples, inconclusive, violations = [], [], []
    programs = 0
    checked = 0
    disagreements = 0
    # ---- literals: one grammar holding all of them -----------------------------------------------
    spec = LX.LexSpec("c10_lits", None, [("lit", l) for l in lits])
    gen = K.run_generator(LX.to_lalrpop(spec), spec.name)
    programs += 1
    if not gen.ok:
        inconclusive.append("generator rejected the literal corpus grammar: %s" % gen.out.strip().splitlines()[-1:])
        emitted = {}
    else:
        lx = X.extract_lexer(gen.rs)
        emitted = {}
        for i, (pat, skip) in enumerate(lx["strs"]):
            if i in lx["tok2term"]:
                emitted[X.terminal_key(lx["terminals"][lx["tok2term"][i]])] = (pat, skip)
    for l in lits:
        checked += 1
        e = emitted.get(("lit", l))
        if e is None:
            if gen.ok:
                violations.append(("lit-missing:%r" % l, "literal %r has no pattern in the generated lexer" % l, {"literal": l}))
            continue
        pat, skip = e
        try:
            v, w = equiv_query(solver, X.parse(pat), lit_hir(l))
        except X.Unsupported as ex:
            inconclusive.append("literal %r: emitted pattern %r not translatable: %s" % (l, pat, ex))
            continue
        if len(samples) < 25:
            samples.append({"literal": l, "emitted": pat, "verdict": v})
        if v == "unknown":
            inconclusive.append("literal %r: z3 gave no answer" % l)
        elif v == "differ":
            disagreements += 1
            nat = full_match(pat, w)
            want = (w == l)
            if nat is not None and nat != want:
                violations.append(("lit:%r" % l, "literal %r is emitted as %r, which %s %r (real Matcher confirms)" %
                                   (l, pat, "matches" if nat else "does not match", w), {"literal": l, "emitted": pat, "witness": w}))
            else:
                inconclusive.append("literal %r: z3 witness %r for emitted %r does not reproduce in the real matcher" % (l, w, pat))
    # ---- regexes: one grammar each ----------------------------------------------------------------
    for rx in regs:
        checked += 1
        spec = LX.LexSpec("c10_re", None, [("re", rx)])
        gen = K.run_generator(LX.to_lalrpop(spec), spec.name)
        programs += 1
        try:
            hb = X.parse(rx)
            if X.hir_features(hb) & {"look", "bytes", "nongreedy", "named"}:
                raise X.Unsupported("look-around / bytes / non-greedy / named capture (documented as unsupported: C11's clause)")
        except X.Unsupported as ex:
            if rx in c10_fixed:
                inconclusive.append("corpus regex %r not translatable: %s" % (rx, ex))
            continue        # a seeded random regex outside the supported fragment is dropped
        if not gen.ok:
            violations.append(("re-rejected:%s" % rx, "supported regex %r is rejected by the generator: %s" % (rx, gen.out.strip().splitlines()[-1:]),
                               {"regex": rx, "out": gen.out[-1500:]}))
            continue
        lx = X.extract_lexer(gen.rs)
        pats = [p for i, (p, s) in enumerate(lx["strs"]) if i in lx["tok2term"]]
        if len(pats) != 1:
            inconclusive.append("regex %r: expected exactly one non-skip pattern, got %r" % (rx, pats))
            continue
        pat = pats[0]
        try:
            v, w = equiv_query(solver, X.parse(pat), hb)
        except X.Unsupported as ex:
            violations.append(("re-untranslatable:%s" % rx, "regex %r emitted as %r which regex-syntax/z3 cannot take: %s" % (rx, pat, ex), {"regex": rx, "emitted": pat}))
            continue
        if len(samples) < 60:
            samples.append({"regex": rx, "emitted": pat, "verdict": v})
        if v == "unknown":
            inconclusive.append("regex %r: z3 gave no answer within the timeout" % rx)
        elif v == "differ":
            disagreements += 1
            a, b = full_match(pat, w), full_match(rx, w)
            if a is not None and b is not None and a != b:
                violations.append(("re:%s" % rx, "regex %r is emitted as %r; the real Matcher %s %r with the emitted text but %s it with the source text" %
                                   (rx, pat, "matches" if a else "rejects", w, "matches" if b else "rejects"), {"regex": rx, "emitted": pat, "witness": w}))
            else:
                inconclusive.append("regex %r: z3 witness %r (emitted %r) does not reproduce in the real matcher" % (rx, w, pat))
    # ---- mixed: a quoted literal and a regex with the SAME source text in one grammar (and literals that look like each other's
    #      escaped form): every terminal must keep its own language whatever else the grammar contains
    same_text = [".", "a.b", "[ab]", "a+", "x*y", r"\d", "(a|b)", "a{2}", r"\.", "a?", "[^a]", r"\w+", "(?i)k", "é+"]
    groups = [[("lit", t), ("re", t)] for t in same_text]
    groups.append([("lit", "a.c"), ("lit", r"a\.c"), ("lit", r"a\\.c")])
    groups.append([("lit", "+"), ("lit", r"\+"), ("re", r"\+\+")])
    for grp in groups:
        spec = LX.LexSpec("c10_mixed", None, list(grp))
        gen = K.run_generator(LX.to_lalrpop(spec), spec.name)
        programs += 1
        if not gen.ok:
            inconclusive.append("mixed grammar %r rejected by the generator: %s" % (grp, gen.out.strip().splitlines()[-1:]))
            continue
        lx = X.extract_lexer(gen.rs)
        emitted = {}
        for i, (pat, skip) in enumerate(lx["strs"]):
            if i in lx["tok2term"]:
                emitted[X.terminal_key(lx["terminals"][lx["tok2term"][i]])] = pat
        for kind, text in grp:
            checked += 1
            pat = emitted.get((kind, text))
            if pat is None:
                violations.append(("mixed-missing:%s:%s" % (kind, text), "terminal %s %r has no pattern of its own in a grammar that also declares %r" % (kind, text, grp), {"group": grp}))
                continue
            try:
                want = lit_hir(text) if kind == "lit" else X.parse(text)
                v, w = equiv_query(solver, X.parse(pat), want)
            except X.Unsupported as ex:
                inconclusive.append("mixed %r: %s" % (grp, ex))
                continue
            if len(samples) < 90:
                samples.append({"grammar_terminals": grp, "terminal": [kind, text], "emitted": pat, "verdict": v})
            if v == "unknown":
                inconclusive.append("mixed %s %r: z3 gave no answer" % (kind, text))
            elif v == "differ":
                disagreements += 1
                a = full_match(pat, w)
                b = (w == text) if kind == "lit" else full_match(text, w)
                if a is not None and b is not None and a != b:
                    violations.append(("mixed:%s:%s" % (kind, text), "in a grammar declaring %r the %s terminal %r is emitted as %r, which %s %r (real Matcher confirms)" %
                                       (grp, "quoted" if kind == "lit" else "regex", text, pat, "matches" if a else "does not match", w), {"group": grp, "emitted": pat, "witness": w}))
                else:
                    inconclusive.append("mixed %s %r: witness %r does not reproduce" % (kind, text, w))
    return finish(PID, tier, t0, known, violations, inconclusive, samples, programs, checked, disagreements, solver,
                  functions=["lalrpop::lexer::re::{parse_literal, parse_regex} (run natively)", "lalrpop::lexer::intern_token::compile (run natively; its output is the encoded object)",
                             "regex_syntax::escape / Hir Display (through the real generator)", "tok::apply_string_escapes (through the real generator)",
                             "lalrpop_util::lexer::MatcherBuilder/Matcher (native confirmation of witnesses)"],
                  assumptions=["regex semantics = regex-syntax HIR under the runtime's SyntaxConfig (unicode+utf8), translated to z3 ReSort(String) by vlib/lexsym.hir_to_z3",
                               "alphabet compression: code points that no class in the two patterns distinguishes share one representative (exact for regular languages); surrogates excluded; witnesses are decoded to real code points before the native confirmation",
                               "queries are over ALL strings (no length bound); z3 timeout => inconclusive, never success",
                               "regex-automata's HIR->DFA compilation is trusted; Matcher::next itself is C09's subject"],
                  bounds={"strings": "unbounded", "literals": len(lits), "regexes": len(regs), "outside": "patterns outside the corpus"})


def finish(pid, tier, t0, known, violations, inconclusive, samples, programs, checked, disagreements, solver, functions, assumptions, bounds, extra=None):
    import json
    nviol = 0
    for key, text, data in violations:
        if key in known:
            print("KNOWN-FINDING: property=%s %s" % (pid, text))
            continue
        nviol += 1
        path = K.save_replay(pid, "".join(c if c.isalnum() else "_" for c in key)[:80], {"case.json": json.dumps(data, indent=1, ensure_ascii=True)})
        print("VIOLATION property=%s replay=%s" % (pid, path))
        print("  " + text)
    cov = {"programs": programs, "disagreements_checked": disagreements, "samples": samples, "obligations": checked,
           "discharged": checked - len(inconclusive) - len(violations), "functions_encoded": functions, "bounds": bounds,
           "solver": "z3 %s sequence/regex theory" % z3.get_version_string(), "queries": solver.queries, "solver_wall_s_sum": round(solver.time, 2),
           "inconclusive": inconclusive, "known_findings_hit": [k for k, _, _ in violations if k in known]}
    if extra:
        cov.update(extra)
    K.write_evidence(pid, tier, "translation_validation", cov, assumptions, time.time() - t0, violations=nviol)
    K.log("[%s] %d obligations, %d z3 queries (%.1fs), %d violation(s), %d inconclusive, %.0fs" %
          (pid, checked, solver.queries, solver.time, nviol, len(inconclusive), time.time() - t0))
    if nviol:
        return 1
    if inconclusive:
        for x in inconclusive:
            print("INCONCLUSIVE: " + str(x))
        return 2
    return 0


def replay(path):
    import json, os
    case = json.load(open(os.path.join(path, "case.json")))
    print(json.dumps(case, indent=1))
    if "witness" in case and "emitted" in case:
        print("real Matcher on the witness with the recorded emitted pattern:", X.hd().match([(case["emitted"], False)], case["witness"]))
    return 0
