"""C08 – generated parsers always terminate and never panic (partial, bounded, per component):
  (i)   tables: the LR run over the real generated tables halts within the derived fuel/stack bound for all inputs <= N (E1);
  (ii)  driver: every path of the real state_machine.rs driver within the step bounds returns without panic (E3, all modes);
  (iii) lexer: the real Matcher never yields an empty token / never stalls: z3 finds, per corpus terminal set, the inputs on which only
        an empty match exists; the real Matcher is run on them and on all short strings over the class representatives.
"""
import itertools
import json
import os
import time
import z3

from vlib import common as K, e1run, e3, lexsym as X
from corpus import lexers as LX
from props import c01, c09, c11

PID = "C08"


def lexer_stage(tier):
    Lmax = 3 if tier == "quick" else 5
    solver = X.Solver(timeout_ms=60000)
    specs = LX.lexer_specs(K.seed()) + [
        LX.LexSpec("null_star", None, [("re", "a*")], "a terminal that matches the empty string"),
        LX.LexSpec("null_opt", None, [("re", "(ab)?c?"), ("lit", "+")], ""),
        LX.LexSpec("null_digits", None, [("re", "[0-9]*"), ("re", "[a-z]+")], ""),
        LX.LexSpec("null_skip", [[LX.R(r"\s*", "skip")], [("_",)]], [("lit", "A")], "a skip rule that matches the empty string"),
        LX.LexSpec("null_both", [[LX.R(r"#*", "skip")], [("_",)]], [("re", "x*y?")], ""),
    ]
    viol, inconc, samples = [], [], []
    traces = 0
    programs = 0
    for spec in specs:
        gen = K.run_generator(LX.to_lalrpop(spec), spec.name)
        if not gen.ok:
            continue
        programs += 1
        il, lx = c09.impl_lexer(gen.rs)
        al = X.Alphabet([h for (h, _, _, _) in il])
        ire = [X.hir_to_z3(h, al) for (h, _, _, _) in il]
        s = z3.String("s")
        cons = [z3.InRe(s, z3.Star(al.valid_char())), z3.Length(s) >= 1, z3.Length(s) <= Lmax]
        for l in range(1, Lmax + 1):
            for r in ire:
                cons.append(z3.Not(z3.And(z3.Length(s) >= l, z3.InRe(z3.SubString(s, 0, l), r))))
        cons.append(z3.Or(*[z3.InRe(z3.StringVal(""), r) for r in ire]))
        r, m = solver.check(*cons)
        cands = []
        if r == z3.sat:
            cands.append(al.decode(X.z3_unescape(X.model_string(m, s))))
        elif r != z3.unsat:
            inconc.append("%s: z3 gave no answer" % spec.name)
        samples.append({"terminal_set": spec.name, "emitted": [p for (_, _, _, p) in il], "only_empty_match_possible": str(r), "candidate": cands[:1]})
        reps = [al.decode(al.rep(b)) for b in al.valid_blocks][:6]
        texts = list(cands)
        for l in range(0, 4 if len(reps) <= 5 else 3):
            for w in itertools.product(reps, repeat=l):
                texts.append("".join(w))
        for text in texts:
            res = X.hd().match(lx["strs"], text)
            traces += 1
            empties = [t for t in res.get("tokens", []) if t[0] == t[2]]
            if empties or res.get("status") == "runaway":
                viol.append(("lexer:%s" % spec.name, "terminal set %s, input %r: the real Matcher yields an empty token %s and never advances (status %s)" %
                             (spec.name, text, empties[:1], res.get("status")), {"grammar": LX.to_lalrpop(spec), "input": text, "observed": res if len(str(res)) < 500 else str(res)[:500]}))
                break
    return viol, inconc, {"programs": programs, "z3_queries": solver.queries, "traces": traces, "samples": samples}


def run(tier):
    t0 = time.time()
    known = K.load_known_findings().get(PID, {})
    # (i) tables
    jobs = c01.jobs(tier, kinds=("errpos",), n_quick=4, n_thorough=6, algos=("lane",) if tier == "quick" else ("lane", "lr1", "lalr"), stretch=False)
    rc1 = e1run.run_property(PID, tier, jobs, native_len=3, timeout_s=600 if tier == "quick" else 3000, functions=c01.FUNCTIONS,
                             assumptions=c01.ASSUME + ["C08(i): 'LR run over the real tables halts within the fuel / stack bound derived from the specification grammar' is an assertion of every harness"])
    # (iii) lexer
    lv, linc, lcov = lexer_stage(tier)
    nviol = 0
    for key, text, data in lv:
        if key in known:
            print("KNOWN-FINDING: property=%s %s" % (PID, text))
            continue
        nviol += 1
        path = K.save_replay(PID, key.replace(":", "_"), {"case.json": json.dumps(data, indent=1)})
        print("VIOLATION property=%s replay=%s" % (PID, path))
        print("  " + text)
    evp = K.evidence_path(PID)
    ev = json.load(open(evp))
    ev["coverage"]["lexer_stage"] = lcov
    ev["coverage"]["traces_validated_against_impl"] += lcov["traces"]
    ev["violations"] = ev.get("violations", 0) + nviol
    ev["assumptions"].append("C08(iii) lexer progress: z3 (regex theory, inputs up to %d code points) finds the inputs on which no emitted pattern has a non-empty match while some pattern matches the empty string; "
                             "the verdict on those and on all strings up to length 3 over class representatives comes from running the real Matcher (the runtime loop itself is not executed symbolically: "
                             "regex-automata values cannot be fabricated under Kani)" % (3 if tier == "quick" else 5))
    json.dump(ev, open(evp, "w"), indent=1)
    for x in linc:
        print("INCONCLUSIVE: " + x)
    if nviol:
        rc1 = 1
    elif linc and rc1 == 0:
        rc1 = 2
    # (iv) table-entry encodings of the driver (integral_indices!) for every value of i8 / i16 / i32
    from vlib import kernel
    crate = K.KaniCrate("k_c08_idx")
    crate.write("lib.rs", open(os.path.join(K.VERIF, "engines", "kernels", "indices_lib.rs")).read())
    crate.check_compiles()
    hs = ["h::indices_i8", "h::indices_i16", "h::indices_i32"]
    res = K.run_kani(crate, hs, timeout_s=900)
    ev = json.load(open(evp))
    idx = []
    for h in hs:
        r = res[h]
        idx.append({"harness": h, "status": r.status, "wall_s": round(r.wall_s, 1)})
        if r.status == "FAILED":
            rep, plog = kernel.playback_native(crate, h, 900)
            key = "indices:" + h
            if rep and key not in known:
                path = K.save_replay(PID, key.replace(":", "_"), {"playback.log": plog})
                print("VIOLATION property=%s replay=%s" % (PID, path))
                print("  %s: %s (replayed natively)" % (h, r.failed_checks[:2]))
                ev["violations"] = ev.get("violations", 0) + 1
                rc1 = 1
            elif not rep:
                print("INCONCLUSIVE: %s failed but does not replay" % h)
                rc1 = max(rc1, 2)
        elif r.status != "SUCCESSFUL":
            print("INCONCLUSIVE: %s %s" % (h, r.status))
            rc1 = max(rc1, 2) if rc1 != 1 else 1
    ev["coverage"]["indices_stage"] = idx
    ev["coverage"]["obligations"] = ev["coverage"].get("obligations", 0) + len(hs)
    ev["coverage"]["discharged"] = ev["coverage"].get("discharged", 0) + sum(1 for x in idx if x["status"] == "SUCCESSFUL")
    ev["assumptions"].append("C08(iv): integral_indices! (as_shift/as_reduce/is_*) for EVERY value of i8, i16, i32: no overflow, exactly one kind, decode(encode)=id incl. the most negative entry")
    json.dump(ev, open(evp, "w"), indent=1)
    # (ii) driver
    return e3.add_stage(PID, tier, rc1, ["plain", "errors", "recovery", "recovery_errors"], {"C08"},
                        ["C08(ii): every explored path of the real driver returns (no panic, no `cannot find token at EOF`, no `lookahead and token_index mismatched`, no unwrap on an empty stack) within the step bound; "
                         "paths cut by a stated bound are outside the claim"])


def replay(path):
    case = json.load(open(os.path.join(path, "case.json")))
    if case.get("engine") == "symdrive":
        return e3.replay_case(path)
    if "input" in case and "grammar" in case and "observed" in case and "input_kinds" not in case:
        gen = K.run_generator(case["grammar"], "replay")
        il, lx = c09.impl_lexer(gen.rs)
        res = X.hd().match(lx["strs"], case["input"])
        print(str(res)[:400])
        return 1 if [t for t in res.get("tokens", []) if t[0] == t[2]] else 0
    return e1run.replay(PID, path)
