"""C15 – conditional compilation equals deleting the inactive declarations (E1 + acceptance differential)."""
import itertools
import time
from vlib import common as K, e1, e1run
from corpus import sugar, gram as G
from props import sugarprops as SP, c01

PID = "C15"
ASSUME = c01.ASSUME + [
    "feature dimension enumerated exhaustively (all 2^k subsets of the grammar's k feature names), given via --features and, for the "
    "same sets, via CARGO_FEATURE_<NAME> environment variables; input dimension decided by the solver",
    "specification = grammar with every nonterminal / alternative / extern conversion whose cfg predicate (feature=, not, all, any; several "
    "attributes conjoined) evaluates false removed (corpus.gram.apply_cfg), then to_cfg",
    "the harness also asserts that the real __token_to_integer maps every active terminal (inactive ones are not fed)",
    "acceptance differential: generator verdict on the cfg-annotated text under a feature set == verdict on the physically deleted text",
]


def run(tier):
    t0 = time.time()
    n = 5 if tier == "quick" else 7
    jobs = []
    diffs = []
    for g in sugar.cfg_grammars():
        if getattr(g, "thorough_only", False) and tier == "quick":
            continue
        for r in range(len(g.features) + 1):
            for fs in itertools.combinations(g.features, r):
                feats = frozenset(fs)
                # acceptance differential
                r1 = K.run_generator(G.to_lalrpop(g), g.name, features=sorted(fs) or None)
                r2 = K.run_generator(G.to_lalrpop(sugar.delete_inactive(g, fs)), g.name)
                diffs.append((g.name, sorted(fs), r1.ok, r2.ok))
                try:
                    _, starts = G.to_cfg(g, feats)
                except G.SpecReject:
                    starts = []
                for s in starts:
                    for algo in (("lane",) if tier == "quick" else ("lane", "lr1")):
                        jobs.append(e1.Job(g, feats, algo, s, n, ["lang"]))
                    if tier != "quick" or len(fs) == 1:
                        jobs.append(e1.Job(g, feats, "lane", s, n, ["lang"], feat_env=True))
    bad = [d for d in diffs if d[2] != d[3]]
    rc = e1run.run_property(PID, tier, jobs, native_len=3 if tier == "quick" else 4, timeout_s=600 if tier == "quick" else 3000,
                            functions=SP.FUNCTIONS + ["(producer) lalrpop::normalize::cond_comp, lower::cfg_active, api::Configuration features / CARGO_FEATURE_*"],
                            assumptions=ASSUME, level_note_extra="acceptance differential on %d (grammar, feature set) pairs: %s" % (len(diffs), diffs))
    if bad:
        known = K.load_known_findings().get(PID, {})
        n = 0
        for d in bad:
            key = "accept:%s:%s" % (d[0], "_".join(d[1]))
            if key in known:
                print("KNOWN-FINDING: property=%s %s" % (PID, key))
                continue
            n += 1
            g = [x for x in sugar.cfg_grammars() if x.name == d[0]][0]
            path = K.save_replay(PID, key.replace(":", "_"), {"grammar.lalrpop": G.to_lalrpop(g), "deleted.lalrpop": G.to_lalrpop(sugar.delete_inactive(g, d[1])),
                                                             "case.json": '{"features": %r, "accepted_with_cfg": %r, "accepted_deleted": %r}' % (d[1], d[2], d[3])})
            print("VIOLATION property=%s replay=%s" % (PID, path))
            print("  generator verdict differs between cfg-annotated grammar under features %s (accepted=%s) and the deleted grammar (accepted=%s)" % (d[1], d[2], d[3]))
        if n:
            return 1
    return rc


def replay(path):
    return e1run.replay(PID, path)
