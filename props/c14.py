"""C14 – inlining preserves the language (E1): every subset of inlinable nonterminals, same specification CFG."""
from vlib import common as K, e1run
from corpus import sugar
from props import sugarprops as SP, c01

PID = "C14"
ASSUME = c01.ASSUME + [
    "specification ignores #[inline] altogether; all 2^k subsets of the k<=3 inlinable nonterminals of each base grammar are generated",
    "order and arguments of inlined actions and verbatim user errors are the reduce engine's subject (C02/C17)",
]


def run(tier):
    gs = sugar.inline_variants(K.seed())
    if tier == "quick":
        # every base grammar: no inlining, everything inlined, and each single nonterminal inlined
        gs = [g for g in gs if g.name.split("_")[-1].count("1") in (0, 1, len(g.name.split("_")[-1]))]
    return SP.run_lang(PID, tier, SP.lang_jobs(gs, tier, n_quick=5, n_thorough=6), ASSUME)


def replay(path):
    return e1run.replay(PID, path)
