"""C14 – inlining preserves the language (E1): every subset of inlinable nonterminals, same specification CFG."""
from vlib import common as K, e1run
from corpus import sugar
from props import sugarprops as SP, c01

PID = "C14"
ASSUME = c01.ASSUME + [
    "specification ignores #[inline] altogether; all 2^k subsets of the k<=3 inlinable nonterminals of each base grammar are generated",
    "order and arguments of inlined actions and verbatim user errors are the reduce engine's subject (C02/C17)",
]


def run_order(tier):
    """action-order half (engine E2): inlined actions run left to right just before the outer action."""
    from props import c02
    return c02.run_e2(PID + "", tier, c02.ASSUME + ["C14 order half: per reduce step of every production of the inlined grammars, the log of recording-action calls is the "
                                                     "post-order, left-to-right sequence of the inlined actions followed by the outer action; a failing inlined action is returned verbatim and no later action runs"],
                      grammars=("act_inline", "act_inline2", "act_inline3", "act_inline4"), relevant=lambda c: not any(x in c for x in c02.LOCATION),
                      whole=(("act_inline", "act_inline2", "act_inline3", "act_inline4"), ("order", "result")))


def run(tier):
    from props import c02
    gs = sugar.inline_variants(K.seed())
    if tier == "quick":
        # every base grammar: no inlining, everything inlined, and each single nonterminal inlined
        gs = [g for g in gs if g.name.split("_")[-1].count("1") in (0, 1, len(g.name.split("_")[-1]))]
    return c02.run_both(PID, tier, lambda: SP.run_lang(PID, tier, SP.lang_jobs(gs, tier, n_quick=5, n_thorough=6), ASSUME), lambda: run_order(tier))


def replay(path):
    return e1run.replay(PID, path)
