"""C13 – macros, repetitions and conditional alternatives expand by substitution (E1, language half)."""
from vlib import common as K, e1run
from corpus import sugar
from props import sugarprops as SP, c01

PID = "C13"
ASSUME = c01.ASSUME + [
    "specification = corpus.gram.to_cfg: a fresh nonterminal per distinct use (keyed structurally, not by printed form), X* = eps | X* X, "
    "X+ = X | X+ X, X? = eps | X, groups = their sequence, macro bodies with arguments substituted, conditions ==, !=, ~~ (unanchored regex search), "
    "!~ on the content of the literal argument",
    "values (Vec order, Option, selected symbol of a group) are checked per real reduce step on the grammar act_reps (second stage); user macros' own action code is user code",
]


def run(tier):
    from props import c02
    gs = sugar.macro_grammars(K.seed())
    return c02.run_both(PID, tier,
                        lambda: SP.run_lang(PID, tier, SP.lang_jobs(gs, tier), ASSUME),
                        lambda: c02.run_e2(PID, tier, c02.ASSUME + [
                            "C13 value half (engine E2, grammar act_reps): `X+ = X` pushes a one-element Vec, `X+ = X+ X` the same Vec with the new item appended (input order), "
                            "`X*`/`X?`/groups are inlined by LALRPOP: the action receives an empty Vec / the X+ Vec, None / Some(item), and the selected symbol of a group; "
                            "Vec leaves have the concrete length 2"], grammars=("act_reps",), relevant=lambda c: not any(x in c for x in c02.LOCATION)))


def replay(path):
    return e1run.replay(PID, path)
