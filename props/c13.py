"""C13 – macros, repetitions and conditional alternatives expand by substitution (E1, language half)."""
from vlib import common as K, e1run
from corpus import sugar
from props import sugarprops as SP, c01

PID = "C13"
ASSUME = c01.ASSUME + [
    "specification = corpus.gram.to_cfg: a fresh nonterminal per distinct use (keyed structurally, not by printed form), X* = eps | X* X, "
    "X+ = X | X+ X, X? = eps | X, groups = their sequence, macro bodies with arguments substituted, conditions ==, !=, ~~ (unanchored regex search), "
    "!~ on the content of the literal argument",
    "values (Vec order, Option, tuples) are checked per reduce step by the reduce engine (C02), not here",
]


def run(tier):
    gs = sugar.macro_grammars(K.seed())
    return SP.run_lang(PID, tier, SP.lang_jobs(gs, tier), ASSUME)


def replay(path):
    return e1run.replay(PID, path)
