"""C02 – parse results are the grammar's actions evaluated over the derivation (engine E2: one real
reduce step per production, symbolic children)."""
from vlib import common as K, e2, kernel
from corpus import actions as A

PID = "C02"
FUNCTIONS = ["generated __reduce / __reduceN / __pop_VariantK", "generated __token_to_integer / __token_to_symbol (extern tokens with 0..12 captures, tuple and struct patterns, shared variants)", "generated __actionN wrappers (inlining, lookaround plumbing)",
             "user action call sites as emitted by lalrpop::build::action + lr1::codegen::parse_table::emit_reduce_action",
             "generated __simulate_reduce, __goto (consistency with the reduce step)"]
ASSUME = [
    "one reduce step from an arbitrary well-typed stack: the k children of the production (symbolic values and locations), with and without one more symbol below, "
    "symbolic states, symbolic Option lookahead start; stack shape is concrete (k is the production's length)",
    "user actions are recording actions returning fresh symbolic values; fallible ones fail at a symbolic call index",
    "which reduction fires when is E1's result (C01); that the driver calls __reduce exactly when the tables say so is the driver engine's result; "
    "'exactly once per tree node, in post-order' for whole parses is the composition of those with this per-step result (argument, not a solver verdict)",
    "expectations come from corpus/actions.py (documented default actions, <> and binding forms, @L/@R neighbour rule, inlined actions left to right before the outer one)",
]


LOCATION = ("location argument", "span starts", "span ends", "empty production: zero-width span")
ERRORS = ("the user error is returned verbatim", "a failing action must end", "nothing is pushed after a failing action",
          "states untouched after a failing action", "number of user-action calls", "user error returned verbatim")


def classify(want, got):
    """kind of a whole-parse mismatch and the id of the first call that differs"""
    import re
    def calls(s):
        return re.findall(r"(\d+)\(([^)]*)\)", s.split("|", 1)[1] if "|" in s else "")
    cw, cg = calls(want), calls(got)
    for (iw, aw), (ig, ag) in zip(cw, cg):
        if iw != ig:
            return "order", iw
        if aw != ag:
            return "args", iw
    if len(cw) != len(cg):
        return "order", (cw + cg)[min(len(cw), len(cg))][0]
    return "result", "-"


def whole_parse_stage(pid, tier, grammars, kinds, maxlen_quick=5, maxlen_thorough=6):
    """Native whole-parse validation (vlib/e2native): returns (traces, violations[(key, text, data)])"""
    from vlib import e2native
    gs = [g for g in A.action_grammars() if g.name in grammars]
    n, mism = e2native.run(gs, maxlen_quick if tier == "quick" else maxlen_thorough)
    out, seen = [], set()
    for gname, toks, fail, want, got in mism:
        kind, cid = classify(want, got)
        if kind not in kinds:
            continue
        key = "whole:%s:%s:%s" % (gname, cid, kind)
        if key in seen:
            continue
        seen.add(key)
        out.append((key, "whole parse of %s on %s (failing call: %s): specification `%s`, real parser `%s`" % (gname, toks, fail, want.strip(), got.strip()),
                    {"grammar": gname, "tokens": toks, "fail_at": fail, "expected": want, "observed": got}))
    return n, out


def run_e2(pid, tier, assumptions, grammars=None, relevant=None, whole=None, tts=False):
    gs = [g for g in A.action_grammars() if grammars is None or g.name in grammars]
    crate, hs, notes = e2.prepare(gs, "e2_" + pid.lower(), tts=tts)
    names = [h for h, _, _ in hs]
    desc = {h: d + ("" if kind == "spec" else " [no specification: panic-freedom only]") for h, d, kind in hs}

    def key_of(h, r):
        import re
        return re.sub(r"\s+", "", "e2:%s:%s" % (desc[h], "|".join(sorted(c.strip('"').replace(" ", "_") for c in r.failed_checks))))
    rc = kernel.run_kernel_property(pid, tier, crate, names, timeout_s=600 if tier == "quick" else 1800, functions=FUNCTIONS, assumptions=assumptions,
                                    relevant=relevant, key_of=key_of,
                                    bounds={"productions": len(names), "grammars": [g.name for g in gs], "stack_shape": "k children + 0/1 symbol below",
                                            "outside": "recursive-ascent backend; Vec/Option payloads of macro-generated productions; grammars outside the corpus"},
                                    describe=desc, required_covers=["a run"], extra_cov={"notes": notes, "programs": len(gs)})
    if notes:
        for n in notes:
            print("NOTE: " + n)
    if whole:
        import json, os
        known = K.load_known_findings().get(pid, {})
        ntr, viol = whole_parse_stage(pid, tier, whole[0], whole[1])
        nv = 0
        for key, text, data in viol:
            if key in known:
                print("KNOWN-FINDING: property=%s %s" % (pid, text[:300]))
                continue
            nv += 1
            path = K.save_replay(pid, key.replace(":", "_"), {"case.json": json.dumps(data, indent=1)})
            print("VIOLATION property=%s replay=%s" % (pid, path))
            print("  " + text)
        evp = K.evidence_path(pid)
        ev = json.load(open(evp))
        ev["coverage"]["traces_validated_against_impl"] = ev["coverage"].get("traces_validated_against_impl", 0) + ntr
        ev["coverage"]["whole_parse_validation"] = {"grammars": list(whole[0]), "runs": ntr, "mismatch_kinds_counted": list(whole[1]),
                                                    "what": "real generated parser (driver+tables+reduce code) on every sentence up to the length bound and every failing-call position; log and result vs the specification evaluated over the derivation tree"}
        ev["violations"] = ev.get("violations", 0) + nv
        json.dump(ev, open(evp, "w"), indent=1)
        K.log("[%s] whole-parse validation: %d native runs, %d new mismatch(es)" % (pid, ntr, nv))
        if nv:
            return 1
    return rc


def run(tier):
    # values, argument order, exactly-once, default actions, bindings; locations are C06's, errors C17's
    return run_e2(PID, tier, ASSUME, grammars=("act_plain", "act_inline", "act_fallible", "act_loc"),
                  relevant=lambda c: not any(x in c for x in LOCATION),
                  whole=(("act_plain", "act_fallible", "act_reps"), ("order", "args", "result")), tts=True)


def replay(path):
    return kernel.replay_kernel(PID, path)


def run_both(pid, tier, first, second):
    """Run two stages that each write evidence/<pid>.json and merge the two evidence files."""
    import json, os, time
    t0 = time.time()
    rc1 = first()
    evp = K.evidence_path(pid)
    ev1 = json.load(open(evp))
    rc2 = second()
    ev2 = json.load(open(evp))
    cov = ev1["coverage"]
    cov["second_stage"] = ev2["coverage"]
    for k in ("states", "transitions", "obligations", "discharged"):
        cov[k] = cov.get(k, 0) + ev2["coverage"].get(k, 0)
    cov["samples"] = cov.get("samples", [])[:40] + ev2["coverage"].get("samples", [])[:25]
    K.write_evidence(pid, tier, "model_checking", cov, ev1["assumptions"] + [a for a in ev2["assumptions"] if a not in ev1["assumptions"]], time.time() - t0,
                     violations=ev1.get("violations", 0) + ev2.get("violations", 0))
    if 1 in (rc1, rc2):
        return 1
    return max(rc1, rc2)
