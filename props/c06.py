"""C06 – location tracking (table-driven backend; engine E2 with symbolic locations)."""
from vlib import kernel, e3
from props import c02

PID = "C06"
ASSUME = c02.ASSUME + [
    "all locations are symbolic usize values, so gaps between tokens and leading offsets are covered by construction",
    "@L/@R rule as documented: @L = start of the next symbol of the (inlined) alternative, else end of the previous one, else the empty-span position; @R symmetric; "
    "empty production = lookahead start | end of the symbol below | Default",
    "'both code generators return the same locations' (recursive ascent) is not covered",
]


def run(tier):
    rc = c02.run_e2(PID, tier, ASSUME, grammars=("act_loc", "act_loc2", "act_inline", "act_plain"),
                    relevant=lambda c: any(x in c for x in c02.LOCATION),
                    whole=(("act_loc", "act_loc2", "act_inline"), ("args",)))
    # driver half: the location handed to every reduce() call is the start of the current lookahead token / None at end of input
    return e3.add_stage(PID, tier, rc, ["plain", "recovery"], {"C06"},
                        extra_assumptions=["driver stage: on every path of the real driver (with and without error recovery) each reduce() call receives the start location of "
                                           "the current lookahead token, None at end of input; with the per-step result above this places empty productions as documented"])


def replay(path):
    return kernel.replay_kernel(PID, path)
