"""C11 – "ambiguity detected" exactly when two equal-precedence terminals tie on some string (engine E4)."""
import itertools
import time
import z3

from vlib import common as K, lexsym as X
from corpus import lexers as LX
from props import c10

PID = "C11"


def entry_hir(e):
    return c10.lit_hir(e.text) if e.kind == "lit" else X.parse(e.text)


def classify_output(gen):
    if gen.ok:
        return "accept"
    if "ambiguity detected between the terminal" in gen.out:
        return "ambiguity"
    if "are not supported in regular expressions" in gen.out:
        return "unsupported"
    return "other:" + (gen.out.strip().splitlines() or ["?"])[-1][:200]


def spec_verdict(spec, solver):
    """-> (verdict, detail).  verdict: accept | ambiguity | unsupported | unknown | specerror"""
    try:
        entries, implicit = LX.documented_entries(spec)
    except ValueError as ex:
        return "specerror", str(ex)
    hirs = []
    for e in entries:
        try:
            h = entry_hir(e)
        except X.Unsupported as ex:
            return "specerror", "regex-syntax rejects %r" % e.text
        f = X.hir_features(h)
        if f & {"look", "nongreedy", "named", "bytes"}:
            return "unsupported", "%r uses %s" % (e.text, sorted(f))
        hirs.append(h)
    al = X.Alphabet(hirs)
    rs = [X.hir_to_z3(h, al) for h in hirs]
    w = z3.String("w")
    valid = z3.InRe(w, z3.Star(al.valid_char()))
    for i, j in itertools.combinations(range(len(entries)), 2):
        if entries[i].prec != entries[j].prec:
            continue
        higher = [z3.Not(z3.InRe(w, rs[k])) for k in range(len(entries)) if entries[k].prec > entries[i].prec]
        r, m = solver.check(valid, z3.InRe(w, rs[i]), z3.InRe(w, rs[j]), *higher)
        if r == z3.sat:
            wit = al.decode(X.z3_unescape(X.model_string(m, w)))
            return "ambiguity", {"pair": [entries[i].text, entries[j].text], "witness": wit}
        if r != z3.unsat:
            return "unknown", "z3 timeout on %r vs %r" % (entries[i].text, entries[j].text)
    return "accept", None


def run(tier):
    t0 = time.time()
    known = K.load_known_findings().get(PID, {})
    solver = X.Solver(timeout_ms=60000 if tier == "quick" else 300000)
    specs = LX.lexer_specs(K.seed())
    nrand = 60 if tier == "quick" else 1500
    rspecs = LX.random_specs(K.seed(), nrand)
    rnames = {s_.name for s_ in rspecs}
    # range-refinement family (systematic shapes + seeded random); counted with the corpus sets
    specs = specs + LX.refine_specs(K.seed(), 30 if tier == "quick" else 400) + rspecs
    samples, inconclusive, violations = [], [], []
    disagreements = 0
    skipped = 0
    for spec in specs:
        want, detail = spec_verdict(spec, solver)
        if want == "specerror":
            continue
        if spec.name in rnames and want == "unknown":
            skipped += 1      # a random set z3 does not decide in time is dropped, not counted as covered
            continue
        text = LX.to_lalrpop(spec)
        gen = K.run_generator(text, spec.name)
        got = classify_output(gen)
        if spec.name not in rnames or len(samples) < 80 or want != got:
            samples.append({"terminal_set": spec.name, "note": spec.note, "solver_verdict": want, "detail": detail, "generator_verdict": got,
                            "terminals": [term for term in spec.used][:6] if spec.name in rnames else None})
        if spec.name in rnames and got.startswith("other:"):
            skipped += 1      # e.g. a random regex the generator's regex parser rejects: outside the property
            continue
        if want == "unknown":
            inconclusive.append("%s: %s" % (spec.name, detail))
            continue
        if want == got:
            continue
        disagreements += 1
        key = "%s:%s-vs-%s" % (spec.name, want, got.split(":")[0])
        if want == "ambiguity" and got == "accept":
            # native confirmation: both emitted patterns match the witness in the real runtime
            lx = X.extract_lexer(gen.rs)
            wit = detail["witness"]
            hits = [p for (p, s) in lx["strs"] if c10.full_match(p, wit)]
            res = X.hd().match(lx["strs"], wit)
            if len(hits) >= 2:
                violations.append((key, "terminal set %s: %r and %r (equal precedence) both match %r – the real runtime matches it with %d emitted patterns %r and silently picks one (%s) – "
                                   "but the generator reports no ambiguity" % (spec.name, detail["pair"][0], detail["pair"][1], wit, len(hits), hits, res),
                                   {"grammar": text, "pair": detail["pair"], "witness": wit, "emitted_matching": hits, "runtime": res}))
            else:
                inconclusive.append("%s: z3 says %r is matched by both %r, but only %d emitted pattern(s) match it natively" % (spec.name, wit, detail["pair"], len(hits)))
        elif want == "accept" and got == "ambiguity":
            violations.append((key, "terminal set %s: the generator reports an ambiguity although z3 proves that no string is matched by two equal-precedence terminals "
                               "(unless a higher-precedence one matches it too): %s" % (spec.name, (gen.out.strip().splitlines() or ["?"])[-1]),
                               {"grammar": text, "generator_out": gen.out[-1500:]}))
        else:
            violations.append((key, "terminal set %s: documented verdict %s (%s), generator verdict %s" % (spec.name, want, detail, got),
                               {"grammar": text, "generator_out": gen.out[-1500:], "detail": detail}))
    return c10.finish(PID, tier, t0, known, violations, inconclusive, samples, len(specs) - skipped, len(specs) - skipped, disagreements, solver,
                      functions=["lalrpop::lexer::nfa::Nfa::from_re (run natively)", "lalrpop::lexer::dfa::build_dfa + overlap::remove_overlap (run natively)",
                                 "lalrpop::normalize::token_check::{MatchBlock, construct} (run natively; its verdict is the compared object)",
                                 "lalrpop_util::lexer::Matcher (native confirmation of witnesses)"],
                      assumptions=["'tie' reading of the property: an ambiguity must be reported iff some string is matched by two terminals of equal documented precedence and by "
                                   "no terminal of higher precedence (the runtime semantics: the higher one would win); a pair whose overlap is entirely claimed by a higher rung is expected to be accepted",
                                   "documented precedence: earlier match rung > later; literal > regex inside a rung; `_` puts the remaining grammar terminals into its rung; no match block = `match { _ }`",
                                   "the implicit whitespace skip is not part of the build-time check and no corpus set overlaps with it ambiguously",
                                   "regex semantics = regex-syntax HIR (runtime configuration); intersection/emptiness decided by z3 over ALL strings with alphabet compression"],
                      bounds={"strings": "unbounded", "terminal_sets": len(specs), "seeded_random_sets": nrand, "random_sets_dropped_undecided": skipped,
                              "outside": "terminal sets outside the corpus and the seeded random family"})


def replay(path):
    import json, os
    case = json.load(open(os.path.join(path, "case.json")))
    gen = K.run_generator(case["grammar"], "replay")
    print("generator verdict now:", classify_output(gen))
    if gen.ok and "witness" in case:
        lx = X.extract_lexer(gen.rs)
        hits = [p for (p, s) in lx["strs"] if c10.full_match(p, case["witness"])]
        print("emitted patterns matching %r in the real runtime: %r" % (case["witness"], hits))
        return 1 if len(hits) >= 2 else 0
    return 0
