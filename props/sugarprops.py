"""Shared by C12/C13/C14/C15/C25: language of the real tables == language of the documented
desugaring (corpus.gram.to_cfg), all token sequences up to N (engine E1)."""
import itertools
from vlib import common as K, e1, e1run
from corpus import sugar, gram as G
from props import c01

FUNCTIONS = c01.FUNCTIONS


def lang_jobs(grammars, tier, n_quick=5, n_thorough=7, algos_quick=("lane",), algos_thorough=("lane", "lr1"), kinds=("lang",)):
    n = n_quick if tier == "quick" else n_thorough
    algos = algos_quick if tier == "quick" else algos_thorough
    out = []
    for g in grammars:
        try:
            _, starts = G.to_cfg(g, frozenset())
        except G.SpecReject:
            continue
        for algo in algos:
            for s in starts:
                out.append(e1.Job(g, frozenset(), algo, s, max(n, getattr(g, "min_n", 0)), list(kinds)))
    return out


def run_lang(pid, tier, jobs, assumptions, native_len_quick=3, native_len_thorough=4, timeout_quick=600):
    return e1run.run_property(pid, tier, jobs, native_len=native_len_quick if tier == "quick" else native_len_thorough,
                              timeout_s=timeout_quick if tier == "quick" else 3000, functions=FUNCTIONS, assumptions=assumptions)
