"""C28 – ParseError helpers (Kani on lalrpop-util/src/lib.rs; external crate, no hooks)."""
import os
from vlib import common as K, kernel

PID = "C28"

DISPLAY_PRELUDE = r'''
#[cfg(kani)]
mod d {
    use super::*;
    use core::fmt::{self, Write};
    pub struct Buf { pub data: [u8; 128], pub len: usize }
    impl Write for Buf {
        fn write_str(&mut self, s: &str) -> fmt::Result {
            let b = s.as_bytes();
            let mut i = 0;
            while i < b.len() { if self.len >= 128 { return Err(fmt::Error); } self.data[self.len] = b[i]; self.len += 1; i += 1; }
            Ok(())
        }
    }
    /// A location / token / user error whose Display form is one symbolic lower-case letter.
    #[derive(Clone, Copy)] pub struct Ch(pub u8);
    impl fmt::Display for Ch {
        fn fmt(&self, f: &mut fmt::Formatter<'_>) -> fmt::Result {
            let a = [self.0];
            f.write_str(unsafe { core::str::from_utf8_unchecked(&a) })
        }
    }
    fn sym_ch() -> Ch { let c: u8 = kani::any(); kani::assume(c >= b'a' && c <= b'z'); Ch(c) }
    fn sym_str() -> (String, u8) { let c = sym_ch(); let mut s = String::new(); s.push(c.0 as char); (s, c.0) }
    fn check(buf: &Buf, want: &[u8]) {
        assert!(buf.len == want.len(), "Display output has the documented length");
        let mut i = 0;
        while i < want.len() { assert!(buf.data[i] == want[i], "Display output byte equals the documented text"); i += 1; }
    }
    fn show(err: &ParseError<Ch, Ch, Ch>) -> Buf {
        let mut buf = Buf { data: [0; 128], len: 0 };
        let r = fmt::write(&mut buf, format_args!("{}", err));
        assert!(r.is_ok());
        buf
    }
'''


def expected_text(k):
    # documented: "Expected one of a, b or c"
    names = ["X%d" % i for i in range(k)]
    if k == 0:
        return ""
    s = "\nExpected one of " + names[0]
    for i in range(1, k):
        s += (", " if i < k - 1 else " or ") + names[i]
    return s


def display_harness(variant, k):
    """Rust text of one harness; symbolic single-letter payloads are patched into the template."""
    if variant == "token":
        text = "Unrecognized token `T` found at S:E" + expected_text(k)
        ctor = "ParseError::UnrecognizedToken { token: (s, t, e), expected: alloc::vec![%s] }" % ", ".join("x%d" % i for i in range(k))
    elif variant == "eof":
        text = "Unrecognized EOF found at S" + expected_text(k)
        ctor = "ParseError::UnrecognizedEof { location: s, expected: alloc::vec![%s] }" % ", ".join("x%d" % i for i in range(k))
    elif variant == "extra":
        text = "Extra token T found at S:E"
        ctor = "ParseError::ExtraToken { token: (s, t, e) }"
    elif variant == "invalid":
        text = "Invalid token at S"
        ctor = "ParseError::InvalidToken { location: s }"
    elif variant == "user":
        text = "U"
        ctor = "ParseError::User { error: u }"
    # placeholders: single capital letters S,E,T,U and X<i>
    out, patches, i = [], [], 0
    while i < len(text):
        c = text[i]
        if c == "X" and i + 1 < len(text) and text[i + 1].isdigit():
            patches.append((len(out), "c%s" % text[i + 1]))
            out.append("?")
            i += 2
            continue
        if c in "SETU" and (i == 0 or not text[i - 1].isalpha()) and (i + 1 == len(text) or not text[i + 1].isalpha()):
            patches.append((len(out), {"S": "s.0", "E": "e.0", "T": "t.0", "U": "u.0"}[c]))
            out.append("?")
            i += 1
            continue
        out.append(c)
        i += 1
    lit = "".join(out).replace("\\", "\\\\").replace("\n", "\\n").replace('"', '\\"')
    name = "display_%s_%d" % (variant, k)
    lines = ["    #[kani::proof]", "    #[kani::unwind(%d)]" % (len(out) + 4), "    fn %s() {" % name,
             "        let (s, t, e, u) = (sym_ch(), sym_ch(), sym_ch(), sym_ch());"]
    for j in range(k):
        lines.append("        let (x%d, c%d) = sym_str();" % (j, j))
    lines.append("        let err: ParseError<Ch, Ch, Ch> = %s;" % ctor)
    lines.append("        let buf = show(&err);")
    lines.append('        let mut want = *b"%s";' % lit)
    for pos, expr in patches:
        lines.append("        want[%d] = %s;" % (pos, expr))
    lines.append("        check(&buf, &want);")
    lines.append("        core::mem::forget(err);")
    lines.append("    }")
    return "d::" + name, "\n".join(lines) + "\n", text


def build(tier):
    crate = K.KaniCrate("k_c28")
    src = open(os.path.join(K.VERIF, "engines", "kernels", "c28_lib.rs")).read()
    hs = ["h::map_location_exp0", "h::map_location_exp2", "h::map_token", "h::map_error", "h::from_user"]
    desc = {
        "h::map_location_exp0": "map_location on a fully symbolic ParseError<u8,u16,u32>, expected list of length 0",
        "h::map_location_exp2": "same, expected list of length 2",
        "h::map_token": "map_token changes only the token", "h::map_error": "map_error changes only the user error",
        "h::from_user": "From<E>/Into build User{error}",
    }
    maxk = 3 if tier == "quick" else 5
    dsrc = DISPLAY_PRELUDE
    for variant, ks in (("token", range(0, maxk + 1)), ("eof", range(0, maxk + 1)), ("extra", [0]), ("invalid", [0]), ("user", [0])):
        for k in ks:
            name, text, doc = display_harness(variant, k)
            dsrc += text
            hs.append(name)
            desc[name] = "Display == %r with every payload a symbolic letter" % doc
    dsrc += "}\n"
    crate.write("lib.rs", src + dsrc)
    return crate, hs, desc, maxk


FUNCTIONS = ["lalrpop_util::ParseError::map_intern", "ParseError::map_location", "ParseError::map_token", "ParseError::map_error",
             "<ParseError as From<E>>::from", "<ParseError as Display>::fmt", "lalrpop_util::fmt_expected"]


def run(tier):
    crate, hs, desc, maxk = build(tier)
    return kernel.run_kernel_property(
        PID, tier, crate, hs, timeout_s=900 if tier == "quick" else 3600, functions=FUNCTIONS,
        assumptions=[
            "instantiation ParseError<u8,u16,u32> for the mapping helpers (generic code, one instantiation checked)",
            "expected list concretely shaped (length 0 or 2); 'left alone' decided as same buffer pointer and length",
            "Display: L, T, E are marker types printing one symbolic lower-case letter; expected entries are one symbolic letter each; "
            "list lengths are concrete (0..%d) because core::fmt with a symbolic-length list does not terminate in CBMC here (probe P8b)" % maxk,
            "core::fmt is executed as compiled by Kani (no stubs)",
        ],
        bounds={"expected_list_lengths_display": list(range(0, maxk + 1)), "mapping_helpers": "all values of u8/u16/u32 payloads, all 5 variants",
                "outside": "expected lists longer than %d in Display; other instantiations of the generic parameters" % maxk},
        describe=desc)


def replay(path):
    return kernel.replay_kernel(PID, path)
