"""C03 – a grammar is accepted exactly when it is deterministic (PARTIAL: soundness half + differential).

 (a) bounded ambiguity decided by the solver on the SPECIFICATION grammar: a Kani harness computes, for a symbolic token string
     of length <= N, the number of derivation trees (saturating at 2) by a counting CYK over the binarised grammar; `cover!(count >= 2)`
     SATISFIED is an ambiguity witness => the real generator must report a conflict under all three algorithms;
 (b) the two LR(1) constructions (lane table, canonical) must give the same verdict on every corpus grammar, and LALR acceptance
     implies LR(1) acceptance;
 (c) corpus facts: grammars marked LR(1)-not-LALR(1) are rejected only with #[LALR]; LR(2) grammars by all.
 That accepted grammars get a correct parser is C01.  NOT decided: "never reports a conflict for an LR(1) grammar" beyond (b)/(c).
"""
import json
import os
import re
import time

from vlib import common as K
from corpus import base, cfg as C, gram as G
from corpus.base import terms, A
from corpus.gram import Grammar, NT, Err

PID = "C03"


def suspects():
    gs = []
    gs.append((Grammar("amb_expr", terms("n +"), [NT("E", [A("E", "+", "E"), A("n")], pub=True)]), "ambiguous"))
    gs.append((Grammar("amb_else", terms("if x else"), [NT("S", [A("if", "S"), A("if", "S", "else", "S"), A("x")], pub=True)]), "ambiguous"))
    gs.append((Grammar("amb_concat", terms("a"), [NT("S", [A("S", "S"), A("a")], pub=True)]), "ambiguous"))
    gs.append((Grammar("amb_two_paths", terms("a b c"), [NT("S", [A("X", "c"), A("Y", "c")], pub=True), NT("X", [A("a", "b")]), NT("Y", [A("a", "B2")]), NT("B2", [A("b")])]), "ambiguous"))
    gs.append((Grammar("amb_deep", terms("a b ;"), [NT("S", [A("L", ";")], pub=True), NT("L", [A("I"), A("L", "I")]), NT("I", [A("a"), A("a", "b"), A("P")]), NT("P", [A("a", "b")])]), "ambiguous"))
    gs.append((Grammar("amb_unit", terms("a b"), [NT("S", [A("X"), A("Y")], pub=True), NT("X", [A("a", "b")]), NT("Y", [A("a", "Z")]), NT("Z", [A("b")])]), "ambiguous"))
    # a real conflict that sits on ONE lane of a grammar whose other lanes need the lane-table state split (LR(1)-not-LALR(1) shapes)
    XY = [NT("X", [A("e", "X"), A("e")]), NT("Y", [A("e", "Y"), A("e")])]
    gs.append((Grammar("amb_lane_g1", terms("a b c d e"), [NT("G", [A("a", "X", "d"), A("a", "Y", "c"), A("b", "X", "c"), A("b", "Y", "d"), A("b", "Y", "c")], pub=True)] + XY), "ambiguous"))
    gs.append((Grammar("amb_lane_g2", terms("a b c d e"), [NT("G", [A("a", "X", "d"), A("a", "Y", "c"), A("b", "X", "c"), A("b", "Y", "d"), A("a", "X", "c")], pub=True),
                                                            NT("X", [A("e")]), NT("Y", [A("e")])]), "ambiguous"))
    gs.append((Grammar("amb_lane_start", terms("a b c d e"), [NT("G", [A("X", "c"), A("Y", "d"), A("a", "X", "d"), A("a", "Y", "c"), A("b", "X", "c"), A("b", "Y", "d"), A("b", "Y", "c")], pub=True)] + XY), "ambiguous"))
    # shift/reduce on one lane only: after `2 q` lookahead e is both "reduce W = q" and "shift e"
    gs.append((Grammar("lr2_lane_sr", terms("u v q e a b c d"), [
        NT("S", [A("X", "c"), A("Y", "d"), A("u", "W", "a"), A("u", "V", "b"), A("v", "W", "e"), A("v", "V", "a")], pub=True),
        NT("W", [A("q", "X"), A("q")]), NT("V", [A("q", "Y")]), NT("X", [A("e")]), NT("Y", [A("e")])]), "not_lr1"))
    # unambiguous but not LR(1) (needs two tokens of lookahead)
    gs.append((Grammar("lr2", terms("a b c"), [NT("S", [A("X", "a", "a"), A("Y", "a", "b")], pub=True), NT("X", [A("c")]), NT("Y", [A("c")])]), "not_lr1"))
    # reduce/reduce whose colliding lookahead reaches the two reductions from two different states (outer follow vs inner first)
    gs.append((Grammar("lr2_outer", terms("p z x"), [NT("S", [A("A", "x")], pub=True), NT("A", [A("p", "C"), A("p", "B", "D")]), NT("B", [A("z")]), NT("C", [A("z")]), NT("D", [A("x")])]), "not_lr1"))
    gs.append((Grammar("lr2_outer3", terms("p q z x y"), [NT("S", [A("A", "x"), A("q", "A", "y")], pub=True), NT("A", [A("p", "C"), A("p", "B", "D")]), NT("B", [A("z")]), NT("C", [A("z")]), NT("D", [A("x")]), ]), "not_lr1"))
    # conflicts whose lookahead / shifted symbol is the error terminal `!` (read as a terminal, C16): shift `!` vs reduce on `!`,
    # reduce/reduce on `!`, and an unambiguous LR(2) shape with `!` as the colliding lookahead
    gs.append((Grammar("amb_err_sr", terms("a b"), [NT("S", [A("P"), A("Q", Err())], pub=True), NT("P", [A("a", Err())]), NT("Q", [A("a")])]), "ambiguous"))
    gs.append((Grammar("amb_err_rr", terms("a b"), [NT("S", [A("P", Err()), A("Q", Err(), "b"), A("Q", Err())], pub=True), NT("P", [A("a")]), NT("Q", [A("a")])]), "ambiguous"))
    gs.append((Grammar("amb_err_deep", terms("a b ;"), [NT("S", [A("L", ";")], pub=True), NT("L", [A("I"), A("L", "I")]), NT("I", [A("a"), A("b", Err()), A("R", Err())]), NT("R", [A("b")])]), "ambiguous"))
    gs.append((Grammar("lr2_err", terms("a x y"), [NT("S", [A("P", Err(), "x"), A("Q", Err(), "y")], pub=True), NT("P", [A("a")]), NT("Q", [A("a")])]), "not_lr1"))
    gs.append((Grammar("lr2_b", terms("x y z"), [NT("S", [A("P", "x", "y"), A("Q", "x", "z")], pub=True), NT("P", [A("z"), A("P", "z")]), NT("Q", [A("z"), A("Q", "z")])]), "not_lr1"))
    return gs


COUNT_HARNESS = r'''
#[cfg(kani)]
#[allow(dead_code, unused)]
pub mod amb_@NAME@ {
    //! counting CYK over the binarised specification grammar (no LALRPOP code involved)
    pub const N: usize = @N@;
    pub const NS: usize = @NS@;          // symbols of the binarised grammar
    fn sadd(a: u8, b: u8) -> u8 { let s = a + b; if s > 2 { 2 } else { s } }
    fn smul(a: u8, b: u8) -> u8 { if a == 0 || b == 0 { 0 } else if a == 1 { b } else if b == 1 { a } else { 2 } }
    fn term(sym: usize, k: u8) -> u8 { match (sym, k) { @TERMS@ _ => 0 } }
    #[kani::proof]
    #[kani::unwind(@UNWIND@)]
    pub fn ambiguous() {
        let n: usize = kani::any();
        kani::assume(n >= 1 && n <= N);
        let mut w = [0u8; N];
        let mut i = 0;
        while i < N { let k: u8 = kani::any(); kani::assume(k < @NK@); w[i] = k; i += 1; }
        // c[sym][i][l] = number of derivation trees of w[i..i+l] from sym (saturated at 2)
        let mut c = [[[0u8; N + 1]; N]; NS];
        let mut l = 1;
        while l <= N {
            let mut i = 0;
            while i + l <= N {
                // symbols in an order in which unit productions are acyclic (computed on the specification side)
@BODY@
                i += 1;
            }
            l += 1;
        }
        kani::cover!(c[@START@][0][n] >= 2, "a string with two different derivation trees");
        kani::cover!(c[@START@][0][n] == 1, "a string with exactly one derivation tree");
    }
}
'''


def binarise(cfg: C.Cfg, start):
    """-> (symbols list, rules: sym -> list of ('t', name) | ('u', B) | ('b', B, C)), order for units).
    Requires an epsilon-free grammar; long productions get fresh helper symbols (1-1 with derivations)."""
    rules = {}
    syms = list(cfg.prods.keys())
    fresh = [0]
    for a, ps in cfg.prods.items():
        out = []
        for p in ps:
            if len(p) == 0:
                raise ValueError("epsilon production in a grammar meant for the counting CYK")
            p = list(p)
            # terminals inside longer bodies get helper symbols
            if len(p) >= 2:
                for i, s in enumerate(p):
                    if C.is_term(s):
                        h = "t!" + s
                        if h not in rules:
                            rules[h] = [("t", s[1:])]
                            syms.append(h)
                        p[i] = h
            while len(p) > 2:
                fresh[0] += 1
                h = "b!%d" % fresh[0]
                rules[h] = [("b", p[-2], p[-1])]
                syms.append(h)
                p = p[:-2] + [h]
            if len(p) == 1:
                out.append(("t", p[0][1:]) if C.is_term(p[0]) else ("u", p[0]))
            else:
                out.append(("b", p[0], p[1]))
        rules[a] = out
    # topological order for unit rules: B before A when A -> B
    order, seen = [], set()

    def visit(x, stack=()):
        if x in seen:
            return
        if x in stack:
            raise ValueError("cyclic unit productions")
        for r in rules.get(x, []):
            if r[0] == "u":
                visit(r[1], stack + (x,))
        seen.add(x)
        order.append(x)
    for s in syms:
        visit(s)
    return syms, rules, order


def harness_text(g, n):
    cfg, starts = G.to_cfg(g)
    start = starts[0]
    red = C.reduced(cfg, [start])
    syms, rules, order = binarise(red, start)
    ix = {s: i for i, s in enumerate(syms)}
    kind = {t.name: i for i, t in enumerate(g.terms)}
    kind[G.ERROR_TERM] = len(g.terms)      # the error terminal `!` is one more token kind of the specification grammar
    termarms = []
    body = []
    for s in order:
        lines = []
        for r in rules[s]:
            if r[0] == "t":
                termarms.append("(%d, %d) => 1," % (ix[s], kind[r[1]]))
        lines.append("                { let mut acc: u8 = if l == 1 { term(%d, w[i]) } else { 0 };" % ix[s])
        for r in rules[s]:
            if r[0] == "u":
                lines.append("                  acc = sadd(acc, c[%d][i][l]);" % ix[r[1]])
            elif r[0] == "b":
                lines.append("                  { let mut k = 1; while k < l { acc = sadd(acc, smul(c[%d][i][k], c[%d][i + k][l - k])); k += 1; } }" % (ix[r[1]], ix[r[2]]))
        lines.append("                  c[%d][i][l] = acc; }" % ix[s])
        body.append("\n".join(lines))
    return (COUNT_HARNESS.replace("@NAME@", g.name).replace("@N@", str(n)).replace("@NS@", str(len(syms)))
            .replace("@TERMS@", " ".join(termarms)).replace("@UNWIND@", str(n + 3)).replace("@NK@", str(len(g.terms) + 1))
            .replace("@BODY@", "\n".join(body)).replace("@START@", str(ix[start])))


def verdicts(g):
    out = {}
    for algo in ("lane", "lr1", "lalr"):
        r = K.run_generator(G.to_lalrpop(g, force_lalr=K.ALGOS[algo][0]), g.name, env=dict(K.ALGOS[algo][1]))
        if r.crashed:
            out[algo] = "crash"
        else:
            out[algo] = "accept" if r.ok else ("conflict" if re.search(r"(?i)conflict|ambigu", r.out) else "reject:" + (r.out.strip().splitlines() or ["?"])[-1][:120])
    return out


def run(tier):
    t0 = time.time()
    n = 5 if tier == "quick" else 7
    known = K.load_known_findings().get(PID, {})
    sus = suspects()
    crate = K.KaniCrate("k_c03", default_features=False)
    lib = ["#![allow(unused)]"]
    hs = []
    for g, kind in sus:
        lib.append(harness_text(g, n))
        hs.append("amb_%s::ambiguous" % g.name)
    crate.write("lib.rs", "\n".join(lib))
    crate.check_compiles()
    res = K.run_kani(crate, hs, timeout_s=900 if tier == "quick" else 3000)
    violations, inconclusive, samples = [], [], []
    steps = vccs = 0
    for (g, kind), h in zip(sus, hs):
        r = res[h]
        steps += r.steps
        vccs += r.vccs
        if r.status != "SUCCESSFUL":
            inconclusive.append("%s: %s" % (h, r.status))
            continue
        ambiguous = "a string with two different derivation trees" not in r.unsat_covers
        v = verdicts(g)
        samples.append({"grammar": g.name, "corpus_class": kind, "solver_says_ambiguous_within_%d" % n: ambiguous, "generator": v, "wall_s": round(r.wall_s, 1)})
        if kind == "ambiguous" and not ambiguous:
            inconclusive.append("%s: marked ambiguous in the corpus but no witness within %d tokens" % (g.name, n))
        if ambiguous or kind == "not_lr1":
            # the same grammar under permutations of its nonterminal names (constructions order states/conflicts by name)
            import itertools, random
            from corpus import sugar
            names = [x.name for x in g.nts]
            perms = [p for p in itertools.permutations(names) if list(p) != names]
            random.Random(K.seed() + 5).shuffle(perms)
            for pi, perm in enumerate(perms[:(5 if tier == "quick" else 23)]):
                g2 = sugar.rename_grammar(g, dict(zip(names, perm)), "%s_p%d" % (g.name, pi))
                v2 = verdicts(g2)
                samples.append({"grammar": g2.name, "renaming": dict(zip(names, perm)), "generator": v2})
                for algo, verdict in v2.items():
                    if verdict == "accept":
                        violations.append(("accepts:%s:%s:%s" % (g.name, "".join(perm), algo), "%s grammar %s with nonterminals renamed %s is ACCEPTED under %s" %
                                           ("ambiguous" if ambiguous else "LR(2)", g.name, dict(zip(names, perm)), algo), {"grammar": G.to_lalrpop(g2), "algorithm": algo, "verdicts": v2}))
            for algo, verdict in v.items():
                if verdict == "accept":
                    violations.append(("accepts:%s:%s" % (g.name, algo), "%s grammar %s is ACCEPTED under %s (a parser was emitted for a non-deterministic grammar)" %
                                       ("ambiguous (solver witness)" if ambiguous else "LR(2)", g.name, algo), {"grammar": G.to_lalrpop(g), "algorithm": algo, "verdicts": v}))
                elif verdict != "conflict":
                    violations.append(("noconflict:%s:%s" % (g.name, algo), "grammar %s under %s: expected a conflict report, got %s" % (g.name, algo, verdict), {"grammar": G.to_lalrpop(g), "verdicts": v}))
    # (b) + (c): differential of the constructions on the LR(1) corpus
    for g in base.base_grammars():
        if getattr(g, "heavy", False):
            continue
        v = verdicts(g)
        samples.append({"grammar": g.name, "corpus_class": "lr1_not_lalr" if g.not_lalr else "lalr", "generator": v})
        if v["lane"] != v["lr1"]:
            violations.append(("diff:%s" % g.name, "grammar %s: lane-table construction says %s but canonical LR(1) says %s" % (g.name, v["lane"], v["lr1"]), {"grammar": G.to_lalrpop(g), "verdicts": v}))
        if v["lalr"] == "accept" and v["lr1"] != "accept":
            violations.append(("lalr:%s" % g.name, "grammar %s accepted as LALR(1) but not as LR(1)" % g.name, {"grammar": G.to_lalrpop(g), "verdicts": v}))
        if g.not_lalr and v["lalr"] == "accept":
            violations.append(("notlalr:%s" % g.name, "grammar %s is not LALR(1) (reduce/reduce conflict after merging) but was accepted with #[LALR]" % g.name, {"grammar": G.to_lalrpop(g), "verdicts": v}))
        if v["lr1"] != "accept" or v["lane"] != "accept":
            violations.append(("rejects:%s" % g.name, "LR(1) corpus grammar %s is not accepted: %s" % (g.name, v), {"grammar": G.to_lalrpop(g), "verdicts": v}))
        if not g.not_lalr and v["lalr"] != "accept":
            violations.append(("lalrrejects:%s" % g.name, "LALR(1) corpus grammar %s is rejected with #[LALR]: %s" % (g.name, v), {"grammar": G.to_lalrpop(g), "verdicts": v}))
    nviol = 0
    for key, text, data in violations:
        if key in known:
            print("KNOWN-FINDING: property=%s %s" % (PID, text))
            continue
        nviol += 1
        path = K.save_replay(PID, key.replace(":", "_"), {"case.json": json.dumps(data, indent=1)})
        print("VIOLATION property=%s replay=%s" % (PID, path))
        print("  " + text)
    cov = {"states": max(steps, 1), "transitions": max(vccs, 1), "traces_validated_against_impl": len(samples), "samples": samples,
           "obligations": len(hs), "discharged": len(hs) - len(inconclusive), "programs": len(samples),
           "functions_encoded": ["specification side only: counting CYK over the binarised corpus grammar (Kani cover = ambiguity witness)",
                                 "(compared object) verdict of lalrpop::lr1::{lane_table, build, build_lalr} + lr1::error reporting, run natively under the three configurations"],
           "bounds": {"ambiguity_witness_max_tokens": n, "outside": "completeness half (never a conflict for an LR(1) grammar) beyond the lane/canonical differential on the corpus; grammars outside the corpus"},
           "inconclusive": inconclusive, "solver": "CBMC 6.11 / CaDiCaL via Kani 0.68"}
    K.write_evidence(PID, tier, "model_checking", cov,
                     ["an ambiguity witness found by the solver is a proof that every LR construction has a conflict, so 'accepted' is a violation whatever the algorithm",
                      "LR(2) grammars and the LR(1)/LALR(1) classification of the base corpus are corpus facts (textbook / lane-table paper grammars)",
                      "lane-table vs canonical LR(1): the two independent constructions in the code base must agree on every corpus grammar",
                      "correctness of the parser emitted for an accepted grammar is C01"], time.time() - t0, violations=nviol)
    K.log("[%s] %d ambiguity queries, %d grammars compared, %d violation(s), %d inconclusive, %.0fs" % (PID, len(hs), len(samples), nviol, len(inconclusive), time.time() - t0))
    if nviol:
        return 1
    if inconclusive:
        for x in inconclusive:
            print("INCONCLUSIVE: " + x)
        return 2
    return 0


def replay(path):
    case = json.load(open(os.path.join(path, "case.json")))
    print(case["grammar"])
    print("recorded verdicts:", case["verdicts"])
    for algo in ("lane", "lr1", "lalr"):
        r = K.run_generator(case["grammar"].replace("#[LALR]\n", "") if algo != "lalr" else ("#[LALR]\n" + case["grammar"].replace("#[LALR]\n", "")), "replay", env=dict(K.ALGOS[algo][1]))
        print(algo, "accept" if r.ok else "rejected")
    return 0
