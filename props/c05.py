"""C05 – expected-token lists name only tokens that could continue the input (E1 tables half)."""
from vlib import e1run
from props import c01

PID = "C05"
ASSUME = c01.ASSUME + [
    "listed_tab(stack, t) (injected, array based) is the documented meaning of the generated __accepts(None, stack, Some(t)); the real "
    "__accepts/__expected_tokens_from_states are exercised on every native validation input and replay (duplicates, error pseudo-terminal, "
    "soundness, completeness for canonical LR(1))",
]


def run(tier):
    rc = e1run.run_property(PID, tier, c01.jobs(tier, kinds=("expected",), n_quick=3, n_thorough=5, stretch=False), native_len=3 if tier == "quick" else 4,
                              timeout_s=600 if tier == "quick" else 3000, functions=c01.FUNCTIONS + ["generated __accepts (native runs)", "generated __expected_tokens_from_states (native runs)"],
                              assumptions=ASSUME, deep=True)
    from vlib import e3
    return e3.add_stage(PID, tier, rc, ["plain", "recovery"], {"C05"})


def replay(path):
    return e1run.replay(PID, path)
