"""C16 – error recovery yields a well-formed tree and accounts for every token (driver-level claim, engine E3)."""
from vlib import e3

PID = "C16"
FUNCTIONS = ["lalrpop_util::state_machine::Parser::{drive, parse, parse_eof, next_token, error_recovery, accepts, reduce, unrecognized_token_error} (real code, natively compiled, explored path by path)"]
ASSUME = [
    "checked on every explored path that ends in Ok, from the provenance the symbolic symbols carry: tree tokens are a subsequence of the pulled tokens in order; every other pulled token lies inside the "
    "span of exactly one error node; error-node spans are ordered, disjoint and not inverted; every dropped_tokens list holds consecutive pulled tokens, none twice; states.len() == symbols.len()+1 at every reduce; "
    "no error node when no error action was taken",
    "NOT covered: that the tree is a derivation of a concrete grammar with `!` read as a terminal (needs a whole parse of a real generated parser, out of reach: probe P1); more than the stated number of tokens / errors",
]


def run(tier):
    # tables half (engine E1): grammars with `!`: the error column is the last terminal index, `!` is not named in the terminal table,
    # and the plain LR run over the real tables accepts exactly the sentences derivable WITHOUT `!` (so those never need recovery)
    from vlib import e1, e1run
    from corpus import base
    from props import c01
    n = 4 if tier == "quick" else 6
    jobs = []
    for g in base.recovery_grammars():
        for algo in (("lane",) if tier == "quick" else ("lane", "lr1", "lalr")):
            for s in g.pub_nts():
                jobs.append(e1.Job(g, frozenset(), algo, s, n, ["lang"]))
    rc = e1run.run_property(PID, tier, jobs, native_len=0, timeout_s=900 if tier == "quick" else 3000, functions=c01.FUNCTIONS + FUNCTIONS,
                            assumptions=c01.ASSUME + ASSUME + ["tables half: `!` is read as a terminal that never occurs in the input, so the specification language is that of the grammar without its error alternatives"])
    return e3.add_stage(PID, tier, rc, ["recovery", "recovery_errors"], {"C16"})


def replay(path):
    return e3.replay_case(path)
