"""C16 – error recovery yields a well-formed tree and accounts for every token (driver-level claim, engine E3)."""
from vlib import e3

PID = "C16"
FUNCTIONS = ["lalrpop_util::state_machine::Parser::{drive, parse, parse_eof, next_token, error_recovery, accepts, reduce, unrecognized_token_error} (real code, natively compiled, explored path by path)"]
ASSUME = [
    "checked on every explored path that ends in Ok, from the provenance the symbolic symbols carry: tree tokens are a subsequence of the pulled tokens in order; every other pulled token lies inside the "
    "span of exactly one error node; error-node spans are ordered, disjoint and not inverted; every dropped_tokens list holds consecutive pulled tokens, none twice; states.len() == symbols.len()+1 at every reduce; "
    "no error node when no error action was taken",
    "NOT covered: that the tree is a derivation of a concrete grammar with `!` read as a terminal (needs a whole parse of a real generated parser, out of reach: probe P1); more than the stated number of tokens / errors",
]


def run(tier):
    return e3.run_property(PID, tier, ["recovery", "recovery_errors"], {"C16"}, FUNCTIONS, ASSUME)


def replay(path):
    return e3.replay_case(path)
