"""C12 – precedence/associativity annotations yield the documented tiered grammar (E1)."""
from vlib import common as K, e1run
from corpus import sugar
from props import sugarprops as SP, c01

PID = "C12"
ASSUME = c01.ASSUME + [
    "specification = corpus.gram.tier_precedence: one nonterminal per level (ascending), left/right/none/all substitution of the recursive "
    "occurrences in source order (nested ones included), inheritance of level and associativity, reset to `all` on a new precedence attribute, "
    "the loosest level keeps the name; written from the documentation, never calls LALRPOP",
    "tree shape (grouping) follows from language equality because the tiered specification grammar is unambiguous per level; values are C02's subject",
]


def run(tier):
    gs = sugar.prec_grammars(K.seed())
    if tier != "quick":
        # more seeded operator tables (random level numbers, kinds, shuffled source order)
        for extra in range(1, 8):
            gs.append(sugar.prec_grammars(K.seed() + 100 * extra)[-1])
    return SP.run_lang(PID, tier, SP.lang_jobs(gs, tier), ASSUME)


def replay(path):
    return e1run.replay(PID, path)
