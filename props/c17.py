"""C17 – action errors are returned verbatim and stop the reduction (engine E2 half; lexer/iterator errors and
'no further token is read' are the driver engine's half)."""
from vlib import kernel
from props import c02

PID = "C17"
ASSUME = c02.ASSUME + [
    "a fallible action fails at a symbolic call index with a symbolic error value; the reduce step must return Some(Err(User{that value})), push nothing, "
    "leave the state stack alone and run no later action (also for inlined fallible actions and on the production that reduces to the start symbol)",
    "that the driver stops pulling tokens and does not enter error recovery on Some(Err) is the driver engine's subject",
]


def run(tier):
    rc = c02.run_e2(PID, tier, ASSUME, grammars=("act_fallible", "act_inline"),
                    relevant=lambda c: any(x in c for x in c02.ERRORS), whole=(("act_fallible", "act_inline"), ("result",)))
    from vlib import e3
    return e3.add_stage(PID, tier, rc, ["errors", "recovery_errors"], {"C17"})


def replay(path):
    return kernel.replay_kernel(PID, path)
