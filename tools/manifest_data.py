"""Tables for tools/mkmanifest.py."""
from tools.mtab import chk, NA

HOOKS = {
    "guard": "--cfg lalrpop_verif",
    "enable": "none needed so far: engines inject into generated files / use public API; reserved: RUSTFLAGS='--cfg lalrpop_verif'",
    "baseline_off_cmd": "cd /repo && cargo nextest run --workspace --no-fail-fast --test-threads 8 --offline || cargo test --workspace --no-fail-fast --offline",
    "source_commits": [],
    "add_only": True,
}

ENGINES = [
    {"name": "E1 tabsym", "path": "vlib/e1.py", "serves_properties": ["C01"],
     "kind_free_text": "Kani/CBMC bounded model checking of the real generated table functions (harness injected into the generated module), CYK oracle from an independent specification CFG"},
]

NOTES = ("Technique family: solver-based checking of the real code (Kani/CBMC, z3). Every result is bounded; bounds and what lies "
         "outside them are in each evidence file and in DESIGN.md. Exit codes: 0 held, 1 VIOLATION (natively replayed), 2 inconclusive.")

E1_NOTE = ("Trusted: rustc/Kani/CBMC/CaDiCaL; the 40-line LR-run specification injected next to the tables; corpus/cfg.py CNF+CYK "
           "(cross-checked in setup); the corpus is a stated bound on the grammar dimension. The driver (state_machine.rs) is linked "
           "in through native validation on all inputs up to length 3/4, not through the solver.")

chk("C01", "E1 tabsym", "model_checking",
    "For each corpus grammar x {lane table, canonical LR(1), LALR(1)} x pub start symbol, CBMC decides for ALL token sequences up to N "
    "(quick 5, thorough 7) that an LR run over the real generated __action/__EOF_ACTION/__goto/__simulate_reduce/__token_to_integer "
    "accepts iff a CYK recogniser over the specification grammar does; bound exhaustion is asserted unreachable.",
    E1_NOTE, "bounded model checking (Kani/CBMC+CaDiCaL) of compiled generated tables vs CYK oracle, symbolic token sequences", "DESIGN.md §2 E1, §3 C01")

_pending = "check not built yet in this session (see DESIGN.md plan); will be claimed when its engine lands"
for p in ["C02","C03","C04","C05","C06","C08","C09","C10","C11","C12","C13","C14","C15","C16","C17","C25","C28"]:
    NA[p] = _pending
NA["C07"] = "needs symbolic execution of the generated recursive-ascent code; Kani cannot (probe P2: >7 GB at N=1), not generic so the native symbolic driver cannot instantiate it"
NA["C18"] = "the code is the grammar-file tokenizer, the self-hosted parser and the normaliser over interned strings/BTreeMaps; the tokenizer does not fit Kani even for 2 symbolic characters (probe P13)"
NA["C19"] = "verdict belongs to rustc's type checker on generated code; no bounded symbolic input to solve for"
NA["C20"] = "quantifies over process histories and HashMap seeds; comparing runs is testing, not solving; no encoding of RandomState through macro expansion/type inference within reach"
NA["C21"] = "behaviour is a sequence of OS file-system calls (std::fs, mtime); code behind I/O that Kani does not model; stubbing std::fs would make the stub the subject"
NA["C22"] = "crash points of file writes: code behind I/O, see C21; a TLA+/fault-enumeration treatment would be a different technique"
NA["C23"] = "directory walking and path arithmetic over std::path/walkdir: heap-backed OsString code behind I/O, not encodable within reach"
NA["C24"] = "syntactic identity between concrete output files; nothing symbolic to decide"
NA["C26"] = "lives in tok/mod.rs (Tokenizer::code, comments, literal scanners); out of Kani's reach (probe P13)"
NA["C27"] = "Kani does not handle concurrency; shared object is regex-automata's lazy DFA"
