"""Tables for tools/mkmanifest.py."""
from tools.mtab import chk, NA

HOOKS = {
    "guard": "--cfg lalrpop_verif",
    "enable": "none needed so far: engines inject into generated files / use public API; reserved: RUSTFLAGS='--cfg lalrpop_verif'",
    "baseline_off_cmd": "cd /repo && cargo nextest run --workspace --no-fail-fast --test-threads 8 --offline || cargo test --workspace --no-fail-fast --offline",
    "source_commits": [],
    "add_only": True,
}

ENGINES = [
    {"name": "E1 tabsym", "path": "vlib/e1.py", "serves_properties": ["C01","C04","C05","C12","C13","C14","C15","C25"],
     "kind_free_text": "Kani/CBMC bounded model checking of the real generated table functions (harness injected into the generated module), CYK oracle from an independent specification CFG"},
    {"name": "E2 redsym", "path": "vlib/e2.py", "serves_properties": ["C02", "C06", "C14", "C17"],
     "kind_free_text": "Kani/CBMC on one real generated reduce step per production, recording actions, expectations from corpus/actions.py"},
    {"name": "E3 symdrive", "path": "engines/symdrive + vlib/e3.py", "serves_properties": ["C04", "C05", "C06", "C08", "C16", "C17"],
     "kind_free_text": "dynamic symbolic execution of the real natively compiled lalrpop_util driver instantiated with SMT-term handles; z3 decides branch feasibility; event-log property checks"},
    {"name": "E4 lexsym", "path": "vlib/lexsym.py", "serves_properties": ["C09", "C10", "C11"],
     "kind_free_text": "z3 sequence/regex theory over the lexer tables the real generator emitted; regex-syntax HIR via engines/hirdump; alphabet compression; native confirmation with the real Matcher"},
    {"name": "kernels", "path": "vlib/kernel.py", "serves_properties": ["C28"],
     "kind_free_text": "Kani/CBMC harness crates over library kernels of lalrpop-util with Kani concrete playback as native replay"},
]

NOTES = ("Technique family: solver-based checking of the real code (Kani/CBMC, z3). Every result is bounded; bounds and what lies "
         "outside them are in each evidence file and in DESIGN.md. Exit codes: 0 held, 1 VIOLATION (natively replayed), 2 inconclusive.")

E1_NOTE = ("Trusted: rustc/Kani/CBMC/CaDiCaL; the 40-line LR-run specification injected next to the tables; corpus/cfg.py CNF+CYK "
           "(cross-checked in setup); the corpus is a stated bound on the grammar dimension. The driver (state_machine.rs) is linked "
           "in through native validation on all inputs up to length 3/4, not through the solver.")

E2_NOTE = ("Trusted: rustc/Kani/CBMC; corpus/actions.py (documented default actions, binding forms, @L/@R neighbour rule, inline composition) as the expectation; "
           "the stack is concretely shaped (k children + 0/1 symbol below), its contents symbolic; recording actions replace user code. Counterexamples are replayed natively by Kani's concrete playback "
           "against the real generated code before being reported.")
E3_NOTE = ("Trusted: engines/symdrive (decision scheduling shim + event-log checker, ~600 lines), z3, and the printed ParserDefinition contract (EOF actions never shift; pops bounded by the stack; "
           "error column never accepts; reduce() behaves like the generated __reduce). The code under execution is the real natively compiled state_machine.rs; tables are uninterpreted functions, "
           "so one exploration covers all automata within the step bounds.")
chk("C01", "E1 tabsym", "model_checking",
    "For each corpus grammar x {lane table, canonical LR(1), LALR(1)} x pub start symbol, CBMC decides for ALL token sequences up to N "
    "(quick 5, thorough 7) that an LR run over the real generated __action/__EOF_ACTION/__goto/__simulate_reduce/__token_to_integer "
    "accepts iff a CYK recogniser over the specification grammar does; bound exhaustion is asserted unreachable.",
    E1_NOTE, "bounded model checking (Kani/CBMC+CaDiCaL) of compiled generated tables vs CYK oracle, symbolic token sequences", "DESIGN.md §2 E1, §3 C01")

chk("C04", "E1 tabsym", "model_checking",
    "For each corpus grammar x 3 algorithms x pub start: for ALL token sequences up to N (quick 5, thorough 7) CBMC decides that the LR run over the real "
    "generated tables rejects exactly at the first token whose prefix is not a prefix of any sentence (oracle: CYK over CNF(Pre(G))), at end of input iff every "
    "prefix is viable, and never reaches an accept action with input left (no ExtraToken). Exact token/span/EOF location are compared on native runs of the public parse() "
    "for all inputs up to length 3/4 and on every replayed counterexample. Driver stage (native DSE + z3, all tables within the step bounds): the error carries exactly the last pulled triple, "
    "UnrecognizedEof carries the end of the last token / start location, tokens pulled = shifts + 1, ExtraToken only after an accept reduction under a lookahead.",
    E1_NOTE + " " + E3_NOTE, "bounded model checking (Kani/CBMC) of generated tables vs viable-prefix CYK oracle + dynamic symbolic execution (z3) of the real driver", "DESIGN.md §3 C04")
chk("C05", "E1 tabsym", "model_checking",
    "For all rejected inputs up to N (quick 4, thorough 6) and every terminal t: simulating the real tables from the error stack on t reaches shift/accept only if "
    "prefix.t is viable (all algorithms), and iff for canonical LR(1). The generated __accepts/__expected_tokens_from_states run natively on all inputs up to length 3/4 "
    "(soundness, completeness for LR(1), duplicates). Driver stage (native DSE + z3): the expected list placed in the error is the one computed from the state stack as it was when the error action was met (also with recovery on).",
    E1_NOTE + " " + E3_NOTE, "bounded model checking (Kani/CBMC) of generated tables: error-stack simulation vs viable-prefix oracle + dynamic symbolic execution (z3) of the real driver", "DESIGN.md §3 C05")
_SUGAR = ("language of the real generated tables == language of the documented desugaring computed on the specification side (corpus/gram.py), for ALL token "
          "sequences up to N (quick 5, thorough 7), decided by CBMC; ")
chk("C12", "E1 tabsym", "model_checking", _SUGAR + "corpus: calculator, right/none/prefix/postfix/ternary, restated level, inheritance, interleaved and non-contiguous levels, "
    "nested occurrences, outside references, plus a VERIF_SEED-driven shuffled operator table.", E1_NOTE,
    "bounded model checking (Kani/CBMC): tables of the annotated grammar vs CYK over the independently tiered grammar", "DESIGN.md §3 C12")
chk("C13", "E1 tabsym", "model_checking", _SUGAR + "corpus: Comma<T>, X*/X+/X? on terminals, nonterminals and groups, conditions == != ~~ !~ over three instantiations, nested "
    "macro uses, close-but-distinct instantiations, forwarding of parameters. Value half (engine E2, grammar act_reps): X+ productions push/append in input order, the action of an alternative using X*, X?, groups receives "
    "empty Vec / the X+ Vec, None / Some, the selected symbol.", E1_NOTE + " " + E2_NOTE,
    "bounded model checking (Kani/CBMC): tables of the macro grammar vs CYK over the substituted grammar", "DESIGN.md §3 C13")
chk("C14", "E1 tabsym", "model_checking", _SUGAR + "for every subset of the inlinable nonterminals of each base grammar (all 2^k, k<=3 in thorough; none/all/singletons in quick) "
    "the tables are equivalent to the same specification CFG; order half (engine E2): per real reduce step of the inlined grammars the inlined actions run left to right just before the outer one, a failing inlined action is returned verbatim. "
    "Two known findings (different inlined nonterminals side by side run in inlining order).", E1_NOTE + " " + E2_NOTE,
    "bounded model checking (Kani/CBMC): tables of each inlined variant vs the same CYK oracle + one real reduce step per inlined production", "DESIGN.md §3 C14")
chk("C15", "E1 tabsym", "model_checking", _SUGAR + "for every feature set (all 2^k) given by --features and via CARGO_FEATURE_* through the library API; the real "
    "__token_to_integer must map every active terminal; plus generator-verdict differential against the physically deleted grammar.", E1_NOTE,
    "bounded model checking (Kani/CBMC) per exhaustively enumerated feature set: tables vs CYK over the deleted grammar", "DESIGN.md §3 C15")
chk("C25", "E1 tabsym", "model_checking", "PARTIAL (nonterminal/macro/macro-parameter names only): " + _SUGAR + "for adversarial renamings (`__`-prefixed names, names LALRPOP "
    "derives internally, `Name<level>` next to a precedence-annotated `Name`, two annotated nonterminals whose generated level names coincide, seeded picks) the generator's verdict is unchanged and the renamed tables are equivalent to the same specification CFG. "
    "Plus a compile differential (observed with rustc, not a solver verdict) on renamings of a grammar parameter and of bindings; two known findings (parameter named v / e).",
    E1_NOTE, "bounded model checking (Kani/CBMC) of tables generated from adversarially renamed grammars vs the unchanged CYK oracle", "DESIGN.md §3 C25")
chk("C28", "kernels", "model_checking",
    "Kani on lalrpop-util/src/lib.rs: map_location/map_token/map_error on a fully symbolic ParseError<u8,u16,u32> (all variants, all payload values; call order and count of the "
    "closure; expected list untouched), From<E>; Display/fmt_expected for every variant with symbolic single-letter payloads and expected lists of each concrete length 0..3 (thorough 0..5), "
    "byte-for-byte against the documented text.",
    "Trusted: rustc/Kani/CBMC; one instantiation of the generic helpers; Display list lengths are concrete (symbolic lengths do not terminate in CBMC here).",
    "bounded model checking (Kani/CBMC) of lalrpop-util helpers over symbolic error values; counterexamples replayed by Kani concrete playback", "DESIGN.md §3 C28")

E4_NOTE = ("Trusted: regex-syntax's parser/HIR (same configuration as the runtime), regex-automata's HIR->DFA compilation, z3's sequence/regex solver, "
           "vlib/lexsym.py (HIR->z3 with alphabet compression; sanity-checked on known-equivalent/known-different pairs), engines/hirdump. "
           "Witnesses are confirmed with the real lalrpop_util::lexer::Matcher before being reported.")
chk("C09", "E4 lexsym", "translation_validation",
    "PARTIAL (generator side decided symbolically; runtime loop on native runs): for each accepted corpus terminal set z3 decides, for ALL input strings up to L code points "
    "(quick 3, thorough 5) over the compressed alphabet, that 'longest prefix, then largest emitted pattern index, then the emitted skip flag / Token(i,_) mapping' picks the same length "
    "and the same terminal (or skip) as 'longest prefix, then documented precedence' on the source match block. Whole tokenizations incl. byte-offset spans and InvalidToken positions are compared "
    "on the real Matcher for all strings up to length 3 over class representatives. Terminal sets: hand-written corpus (rungs, renamings, `_`, skip rules in every rung position, non-ASCII) "
    "plus VERIF_SEED-driven random match blocks (quick 40, thorough 600).", E4_NOTE,
    "SMT (z3 regex/sequence theory) over the generator's emitted lexer tables vs the documented precedence rules; symbolic input string", "DESIGN.md §2 E4, §3 C09")
chk("C10", "E4 lexsym", "translation_validation",
    "For every corpus literal (all printable ASCII characters, pairs of regex metacharacters, quotes/backslashes/control characters, non-ASCII, combining marks, regex-looking words) and every corpus regex "
    "(classes, negation, repetition bounds, alternation, groups, flags, Unicode classes, escapes) z3 decides over ALL strings that the pattern text the generator emitted denotes exactly {s} / exactly L(re); also for grammars that declare a literal and a regex with the SAME source text, "
    "and for seeded random literals/regexes (quick 70, thorough 600).", E4_NOTE,
    "SMT (z3 regex theory): language equivalence of emitted pattern vs source pattern, unbounded strings, alphabet compression", "DESIGN.md §3 C10")
chk("C11", "E4 lexsym", "translation_validation",
    "For every corpus terminal set (match rungs, literals vs regexes, non-ASCII literals vs Unicode classes, covered overlaps, unsupported features) z3 decides over ALL strings whether two equal-precedence "
    "terminals tie on some string no higher-precedence terminal claims; the generator must answer 'ambiguity detected' exactly then, and the unsupported-feature diagnostic for look-around / non-greedy / named captures. "
    "Corpus: boundary families (every construct overlapping exactly at its boundary / just outside it) plus seeded random terminal sets (quick 60, thorough 1500).", E4_NOTE,
    "SMT (z3 regex theory): non-emptiness of pairwise intersections minus higher-precedence languages vs the generator's verdict", "DESIGN.md §3 C11")

chk("C02", "E2 redsym", "model_checking",
    "For every production of the action corpus (named/mut/tuple bindings, <>, default unit/single/tuple actions, inlined and fallible actions) Kani executes the REAL generated __reduce(p, ..) on a stack of "
    "symbolic values/locations/states and decides that the recording-action log is exactly the post-order, left-to-right call sequence with the right arguments, each node once, the pushed value is the "
    "documented one, states are popped/pushed per __simulate_reduce/__goto. Terminal values: for extern tokens with 0/1/2/3/12 captures (tuple and struct patterns, shared variants) the chain real __token_to_integer -> "
    "real __token_to_symbol -> real __reduce hands the captures to the action in written order. Composition with C01 (which reduction when) and the driver engine gives whole-parse results (argument, not a solver verdict).",
    E2_NOTE, "bounded model checking (Kani/CBMC) of one real reduce step per production from an arbitrary well-typed stack", "DESIGN.md §2 E2, §3 C02")
chk("C06", "E2 redsym", "model_checking",
    "PARTIAL (table-driven backend): same harnesses as C02 with symbolic usize locations everywhere: span = (first child start, last child end); empty production = lookahead start | end of the symbol below | Default; "
    "@L/@R values as received by the recording actions (neighbour rule, inlined empties). One known finding (adjacent `@L @R`). Driver half (E3): on every path of the real driver within the step bounds "
    "(with and without recovery) each reduce() call is handed the start of the current lookahead token, None at end of input.", E2_NOTE + " " + E3_NOTE,
    "bounded model checking (Kani/CBMC) of one real reduce step with symbolic locations + dynamic symbolic execution (z3) of the real driver", "DESIGN.md §3 C06")
chk("C08", "E1+E3+E4", "model_checking",
    "PARTIAL, bounded, per component: (i) LR run over the real tables halts within the derived fuel/stack bound for all inputs <= N (Kani); (ii) every path of the real state_machine.rs driver within the step bounds "
    "(plain, stream/action errors, recovery) returns without panic (native DSE + z3); (iii) built-in lexer progress: z3 finds per terminal set the inputs where only an empty match exists, the real Matcher is run on them "
    "and on all short strings over class representatives; (iv) integral_indices! (i8/i16/i32 table-entry decoding) for every value: no overflow, decode(encode)=id (Kani); "
    "recovery progress: after accepts() approved a recovery state the parse never meets an error action before shifting (E3).", E1_NOTE + " " + E3_NOTE,
    "bounded model checking (Kani) of tables + dynamic symbolic execution (z3) of the real driver + z3 regex queries with native runs of the real Matcher", "DESIGN.md §3 C08")
chk("C16", "E3 symdrive", "model_checking",
    "DRIVER-LEVEL claim: every path of the real driver with recovery on (<= 2 tokens, bounded reductions, 1-2 errors; also with stream/action errors) that ends in Ok satisfies: tree tokens are a subsequence of the input in order, "
    "every other input token lies in the span of exactly one error node, spans ordered/disjoint/not inverted, dropped_tokens lists consecutive and disjoint, states.len()==symbols.len()+1 at every reduce, no recovery without an error action. "
    "Tables half (E1): for grammars with `!` the plain LR run over the real tables accepts exactly the sentences derivable without `!` and the terminal name table does not name `!`. "
    "NOT covered: that the recovered tree is a derivation of a concrete grammar.", E1_NOTE + " " + E3_NOTE,
    "dynamic symbolic execution of the real natively compiled driver; branch feasibility decided by z3 (QF_UFLIA) over uninterpreted tables", "DESIGN.md §2 E3, §3 C16")
chk("C17", "E2+E3", "model_checking",
    "(a) reduce step (Kani): a fallible action (also inlined, also on the start reduction) failing at a symbolic call index with a symbolic error makes __reduce return Some(Err(User{that error})), push nothing, run no later action; "
    "(b) driver (native DSE + z3): a stream Err(e) or a reduce Some(Err(e)) at any point (also during recovery) is returned unchanged, the stream is never polled again, no action/expected-list/recovery runs afterwards.",
    E2_NOTE + " " + E3_NOTE, "bounded model checking (Kani) of the real reduce step + dynamic symbolic execution (z3) of the real driver", "DESIGN.md §3 C17")

chk("C03", "kernels+generator", "model_checking",
    "PARTIAL (soundness half + differential): (a) for suspect corpus grammars Kani decides bounded ambiguity on the SPECIFICATION grammar (counting CYK over a symbolic string <= N, cover = two derivation trees); "
    "every grammar with a witness (and the corpus' LR(2) grammars) must be rejected with a conflict under lane-table, canonical LR(1) and LALR(1); (b) lane-table and canonical LR(1) verdicts must agree on every corpus grammar, "
    "LALR acceptance implies LR(1) acceptance, LR(1)-not-LALR grammars are rejected only with #[LALR]. The completeness half ('never a conflict for an LR(1) grammar') is NOT decided beyond that differential.",
    "Trusted: rustc/Kani/CBMC; the counting CYK generator (props/c03.py); classification of corpus grammars (textbook / lane-table paper). The deciding solver step concerns the specification grammar; the code under test contributes its verdict.",
    "bounded model checking (Kani/CBMC) of a counting CYK for ambiguity witnesses, compared with the generator's conflict verdict under three configurations", "DESIGN.md §3 C03")

_pending = "check not built yet in this session (see DESIGN.md plan); will be claimed when its engine lands"
NA["C07"] = "needs symbolic execution of the generated recursive-ascent code; Kani cannot (probe P2: >7 GB at N=1), not generic so the native symbolic driver cannot instantiate it"
NA["C18"] = "the code is the grammar-file tokenizer, the self-hosted parser and the normaliser over interned strings/BTreeMaps; the tokenizer does not fit Kani even for 2 symbolic characters (probe P13)"
NA["C19"] = "verdict belongs to rustc's type checker on generated code; no bounded symbolic input to solve for"
NA["C20"] = "quantifies over process histories and HashMap seeds; comparing runs is testing, not solving; no encoding of RandomState through macro expansion/type inference within reach"
NA["C21"] = "behaviour is a sequence of OS file-system calls (std::fs, mtime); code behind I/O that Kani does not model; stubbing std::fs would make the stub the subject"
NA["C22"] = "crash points of file writes: code behind I/O, see C21; a TLA+/fault-enumeration treatment would be a different technique"
NA["C23"] = "directory walking and path arithmetic over std::path/walkdir: heap-backed OsString code behind I/O, not encodable within reach"
NA["C24"] = "syntactic identity between concrete output files; nothing symbolic to decide"
NA["C26"] = "lives in tok/mod.rs (Tokenizer::code, comments, literal scanners); out of Kani's reach (probe P13)"
NA["C27"] = "Kani does not handle concurrency; shared object is regex-automata's lazy DFA"
