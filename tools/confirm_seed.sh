#!/bin/bash
# tools/confirm_seed.sh <pid-lower> <seed-name>   e.g. c12 C12-1
# Confirms a sub-agent's change in its scratch worktree /tmp/wt-<pid>: suite passes with it, demo fails with it,
# demo passes without it.  Copies patch/demo/notes to /verif/seeded/<seed-name>/ and writes confirm.log there.
set -u
id=$1; name=$2
wt=/tmp/wt-$id; out=/tmp/out-$id; dst=/verif/seeded/$name
mkdir -p $dst
cp $out/patch.diff $dst/patch.diff
rm -rf $dst/demo; cp -r $out/demo $dst/demo; cp $out/notes.md $dst/notes.md 2>/dev/null
find $dst/demo -name target -type d -prune -exec rm -rf {} + 2>/dev/null
log=$dst/confirm.log; : > $log
cd $wt || exit 2
export CARGO_NET_OFFLINE=true CARGO_TARGET_DIR=$wt/target
git stash -q 2>/dev/null; git checkout -q -- . ; 
if ! git apply --check $dst/patch.diff; then echo "PATCH DOES NOT APPLY" | tee -a $log; exit 1; fi
git apply $dst/patch.diff
echo "== suite with change" >> $log
# the pinned baseline command is nextest (349 tests, no doctests); fall back to cargo test when nextest is missing
if cargo nextest --version > /dev/null 2>&1; then
  cargo nextest run --workspace --no-fail-fast --test-threads 8 --offline > $dst/suite.log 2>&1; src=$?
  passed=$(grep -E "tests run:" $dst/suite.log | tail -1 | sed -E 's/.*tests run: *//')
else
  cargo test --workspace --no-fail-fast --offline > $dst/suite.log 2>&1; src=$?
  passed=$(grep -E "^test result" $dst/suite.log | awk '{p+=$4; f+=$6} END {print p" passed "f" failed"}')
fi
echo "suite rc=$src $passed" | tee -a $log
tail -c 2000 $dst/suite.log > $dst/suite.tail; rm -f $dst/suite.log
echo "== demo with change" >> $log
(cd $dst/demo && bash run.sh $wt) > $dst/demo-with.log 2>&1; with=$?
echo "demo with change rc=$with" | tee -a $log
git checkout -q -- .
echo "== demo without change" >> $log
(cd $dst/demo && bash run.sh $wt) > $dst/demo-without.log 2>&1; without=$?
echo "demo without change rc=$without" | tee -a $log
for f in demo-with.log demo-without.log; do tail -c 3000 $dst/$f > $dst/$f.tail; mv $dst/$f.tail $dst/$f; done
find $dst/demo -name "target*" -type d -prune -exec rm -rf {} + 2>/dev/null
find $dst/demo -name work -type d -prune -exec rm -rf {} + 2>/dev/null
if [ $src -eq 0 ] && [ $with -ne 0 ] && [ $without -eq 0 ]; then echo CONFIRMED | tee -a $log; else echo NOT-CONFIRMED | tee -a $log; fi
