#!/usr/bin/env python3-vt
"""Regenerate /verif/MANIFEST.json from the tables below and validate it against the schema."""
import json, os, sys
HERE = os.path.dirname(os.path.dirname(os.path.abspath(__file__)))

sys.path.insert(0, HERE)
from tools.mtab import CHECKS, NA
from tools.manifest_data import HOOKS, ENGINES, NOTES   # fills CHECKS / NA

def main():
    props = [json.loads(l)["id"] for l in open(os.path.join(HERE, "properties.jsonl"))]
    checks = []
    for pid in props:
        if pid in CHECKS:
            c = CHECKS[pid]
            checks.append({
                "property_id": pid,
                "quick_cmd": "./check %s --tier quick" % pid,
                "thorough_cmd": "./check %s --tier thorough" % pid,
                "evidence_file": "/verif/evidence/%s.json" % pid,
                "replay_cmd_template": "./check %s --replay {path}" % pid,
                "engine": c["engine"],
                "level_claimed": {"category": c["category"], "text": c["text"], "design_ref": c["design_ref"]},
                "level_note": c["note"],
                "technique": c["technique"],
            })
    na = [{"property_id": p, "reason": NA[p]} for p in props if p not in CHECKS]
    missing = [p for p in props if p not in CHECKS and p not in NA]
    assert not missing, missing
    man = {
        "version": 1,
        "setup_cmd": "cd /verif && ./check SETUP",
        "hooks": HOOKS,
        "engines": ENGINES,
        "checks": checks,
        "notes": NOTES,
        "not_applicable": na,
    }
    import jsonschema
    schema = json.load(open("/root/.vp/MANIFEST.schema.json"))
    jsonschema.validate(man, schema)
    with open(os.path.join(HERE, "MANIFEST.json"), "w") as f:
        json.dump(man, f, indent=1)
        f.write("\n")
    print("MANIFEST.json written: %d checks, %d not_applicable" % (len(checks), len(na)))

if __name__ == "__main__":
    main()
