CHECKS = {}
NA = {}
def chk(pid, engine, category, text, note, technique, design_ref):
    CHECKS[pid] = dict(engine=engine, category=category, text=text, note=note, technique=technique, design_ref=design_ref)
