#!/bin/bash
# tools/try_seed.sh <seed-name> <worktree> <PID> [<PID>...]  – run checks against a seeded change applied in a scratch worktree
# (equivalent to `git -C /repo apply`, but leaves /repo alone: VERIF_REPO points the machinery at the worktree)
name=$1; wt=$2; shift 2
cd $wt && git checkout -q -- . && git apply /verif/seeded/$name/patch.diff || { echo "cannot apply"; exit 2; }
cd /verif
for pid in "$@"; do
  echo "=== $name : $pid"
  VERIF_REPO=$wt VERIF_EVIDENCE_DIR=/var/tmp/verif-seed-evidence ./check $pid --tier ${TIER:-quick} 2>&1 | grep -E "VIOLATION|KNOWN|INCONCL|^\[C|^  " | head -${LINES_MAX:-12}
  echo "exit=${PIPESTATUS[0]}"
done
cd $wt && git checkout -q -- .
