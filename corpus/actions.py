"""Corpus for the reduce engine E2 (C02, C06, C14 action order, C17): grammars whose actions are
*recording* actions, and the specification-side evaluation of what one reduction must do.

Action descriptions (field `Alt.act`):
    None                               default action (documented: () for unit type, the single
                                       selected/only symbol, otherwise the tuple of selected symbols)
    ("user", id, [arg, ...])           => crate::rec::r(id, &[args])            returns u8
    ("fallible", id, [arg, ...])       =>? crate::rec::f(id, &[args])           returns Result<u8, ParseError<..>>
    ("user_unit", id, [arg, ...])      => { crate::rec::r(id, &[args]); }       for `()`-typed nonterminals
    ("fallible_unit", id, [arg, ...])  =>? crate::rec::f(id, &[args]).map(|_| ())
    ("userall", id)                    => crate::rec::r(id, &[<>])              `<>` = the selected (or all) symbols
    ("mutinc", id, name)               => { name = name.wrapping_add(1); crate::rec::r(id, &[name]) }   (needs <mut name:X>)
  arg := "name" (a u8 binding) | ("loc", "name") (a location binding, passed as `name as u8`)

Value classes of symbols: "u8" | "tok" | "loc" | "pair" | "unit".
"""
from __future__ import annotations
from dataclasses import dataclass, field
from typing import Optional

from .gram import *
from .base import terms, S


def UA(id_, *args):
    return ("user", id_, list(args))


def FA(id_, *args):
    return ("fallible", id_, list(args))


def act_text(act, gname):
    def arg(a):
        if isinstance(a, tuple) and a[0] == "vec":
            return ", ".join("crate::rec_%s::wv(&%s)[%d]" % (gname, a[1], k) for k in range(4))
        if isinstance(a, tuple) and a[0] == "opt":
            return ", ".join("crate::rec_%s::wo(%s)[%d]" % (gname, a[1], k) for k in range(2))
        return "%s as u8" % a[1] if isinstance(a, tuple) else a
    if act[0] == "user":
        return "crate::rec_%s::r(%d, &[%s])" % (gname, act[1], ", ".join(arg(a) for a in act[2]))
    if act[0] == "fallible":
        return "crate::rec_%s::f(%d, &[%s])" % (gname, act[1], ", ".join(arg(a) for a in act[2]))
    if act[0] == "user_unit":
        return "{ crate::rec_%s::r(%d, &[%s]); }" % (gname, act[1], ", ".join(arg(a) for a in act[2]))
    if act[0] == "fallible_unit":
        return "crate::rec_%s::f(%d, &[%s]).map(|_| ())" % (gname, act[1], ", ".join(arg(a) for a in act[2]))
    if act[0] == "userall":
        return "crate::rec_%s::r(%d, &[<>])" % (gname, act[1])
    if act[0] == "usereach":
        # one `<>` per anonymous selection: each is replaced by the corresponding selected symbol, in order
        return "crate::rec_%s::r(%d, &[%s])" % (gname, act[1], ", ".join(["<>"] * act[2]))
    if act[0] == "mutinc":
        return "{ %s = %s.wrapping_add(1); crate::rec_%s::r(%d, &[%s]) }" % (act[2], act[2], gname, act[1], act[2])
    raise ValueError(act)


def AA(syms, act=None, **kw):
    """Alt with a structured action."""
    a = Alt(S(*syms), **kw)
    a.act = act
    return a


def finalize(g: Grammar):
    """Fill Alt.action / Alt.fallible text from Alt.act."""
    for n in g.nts:
        for a in n.alts:
            act = getattr(a, "act", None)
            if act is not None:
                a.action = act_text(act, g.name)
                a.fallible = act[0] in ("fallible", "fallible_unit")
    return g


TYCLASS = {"u8": "u8", "()": "unit", "(u8, u8)": "pair", "usize": "loc"}


def action_grammars():
    gs = []
    N = lambda name, sym, mut=False: Named(name, sym, mut)
    L, R = Look("@L"), Look("@R")

    # --- plain: named bindings, default single, default tuple, unit, `<>`, mut, tuple pattern
    gs.append(finalize(Grammar("act_plain", terms("n:u8 + - * ( ) , ~"), [
        NT("E", [
            AA([N("l", Nt("E")), "+", N("r", Nt("T"))], UA(1, "l", "r")),
            AA([N("l", Nt("E")), "-", N("r", Nt("T"))], UA(2, "r", "l")),          # arguments deliberately swapped in the action text
            AA(["T"]),                                                                 # default: the only symbol
        ], pub=True, ty="u8"),
        NT("T", [
            AA([Sel(Nt("T")), "*", Sel(Nt("F"))], ("userall", 3)),                   # <> = the two selected
            AA([N("zz", Nt("T")), "~", N("aa", Nt("F")), "~", N("mm", Nt("F"))], ("userall", 6)),   # <> with names = the named symbols in SOURCE order (names deliberately not sorted)
            AA(["F"]),
        ], ty="u8"),
        NT("F", [
            AA(["n"]),                                                                 # default: token payload
            AA(["(", Sel(Nt("E")), ")"]),                                              # default: the single selected symbol
            AA(["(", N("v", Nt("E"), True), ",", ")"], ("mutinc", 4, "v")),
            AA(["(", Sel(Nt("E")), ",", Sel(Nt("E")), ")"], ("usereach", 7, 2)),         # two `<>`: first and second selected symbol
            AA(["~", Named("(a, b)", Nt("P")), ")"], UA(5, "b", "a")),               # tuple pattern
        ], ty="u8"),
        NT("P", [AA([Sel(Nt("F")), ",", Sel(Nt("F"))])], ty="(u8, u8)"),             # default: tuple of the selected
        NT("U", [AA(["F", ",", "F"])], pub=True, ty="()"),                           # unit type: ()
    ], tags=["named bindings", "default actions", "<>", "mut binding", "tuple pattern", "unit"])))

    # --- locations: spans, @L/@R with neighbours, alone, around empties
    gs.append(finalize(Grammar("act_loc", terms("n:u8 + ( ) ;"), [
        NT("S", [
            AA([N("a", L), N("x", Nt("A")), N("b", R), ";", N("c", R)], UA(10, ("loc", "a"), "x", ("loc", "b"), ("loc", "c"))),
            AA([N("p", Nt("Pos")), "+", N("q", Nt("Pos"))], UA(11, ("loc", "p"), ("loc", "q"))),
            AA(["(", N("a", L), N("b", R), ")"], UA(12, ("loc", "a"), ("loc", "b"))),     # @L @R between two tokens
            AA([N("a", L), N("e", Nt("Empty")), N("b", R), ")"], UA(13, ("loc", "a"), "e", ("loc", "b"))),
        ], pub=True, ty="u8"),
        NT("A", [AA(["n"]), AA(["(", Sel(Nt("A")), ")"])], ty="u8"),
        NT("Pos", [AA([L])], ty="usize"),                                              # @L alone: empty production
        NT("Empty", [AA([], UA(14))], ty="u8"),
    ], tags=["@L/@R with neighbours", "@L alone", "empty production spans", "token spans"])))

    # --- inlining with fallible actions
    gs.append(finalize(Grammar("act_inline", terms("n:u8 + - ( ) ;"), [
        NT("E", [
            AA([N("l", Nt("E")), N("o", Nt("Op")), N("r", Nt("T"))], UA(20, "l", "o", "r")),
            AA(["T"]),
        ], pub=True, ty="u8"),
        NT("Op", [
            AA(["+"], FA(21)),
            AA([N("a", L), "-", N("b", R)], UA(22, ("loc", "a"), ("loc", "b"))),
        ], inline=True, ty="u8"),
        NT("T", [
            AA(["n"]),
            AA(["(", N("x", Nt("W")), N("y", Nt("W")), ")"], FA(23, "x", "y")),       # two occurrences of an inlined fallible nonterminal
            AA([N("w", Nt("Z")), ";"], UA(27, "w")),
            AA(["(", N("w", Nt("Z")), ")"], UA(29, "w")),                             # the empty inlined Z between two tokens: @L = start of `)`, @R = end of `(`
        ], ty="u8"),
        NT("W", [AA([N("v", Nt("V"))], FA(24, "v"))], inline=True, ty="u8"),           # nested inlining, both fallible
        NT("V", [AA(["n"], FA(25)), AA(["-", N("k", Nt("T"))], UA(26, "k"))], inline=True, ty="u8"),
        NT("Z", [AA([N("p", L), N("q", R)], UA(28, ("loc", "p"), ("loc", "q")))], inline=True, ty="u8"),   # empty inlined production with locations
    ], tags=["inline", "fallible inlined", "nested inline", "two occurrences", "empty inlined with @L/@R"])))

    # --- two DIFFERENT inlined nonterminals side by side (names chosen so that either inlining order is exercised)
    gs.append(finalize(Grammar("act_inline2", terms("n:u8 + - ( ) ;"), [
        NT("S", [
            AA([N("a", Nt("IA")), N("b", Nt("IB"))], UA(40, "a", "b")),
            AA(["(", N("b", Nt("IB")), N("a", Nt("IA")), ")"], UA(41, "b", "a")),
            AA([";", N("a", Nt("IA")), N("z", Nt("ZZ")), N("b", Nt("IB"))], FA(42, "a", "z", "b")),
        ], pub=True, ty="u8"),
        NT("IA", [AA(["+", N("x", Tm("n"))], FA(43, "x"))], inline=True, ty="u8"),
        NT("IB", [AA(["-", N("y", Tm("n"))], FA(44, "y"))], inline=True, ty="u8"),
        NT("ZZ", [AA(["n"], UA(45))], inline=True, ty="u8"),
    ], tags=["two different inlined nonterminals in one alternative", "inline order vs evaluation order"])))

    # --- an inlined nonterminal that itself mentions two different inlined nonterminals, used twice.
    # Names are chosen so that the current inlining order (dependencies first, then by name) happens to evaluate
    # left to right (see the known finding on act_inline2): any change of the order shows.
    gs.append(finalize(Grammar("act_inline3", terms("n:u8 + - ( ) ;"), [
        NT("S", [
            AA(["(", N("p", Nt("HP")), N("q", Nt("HP")), ")"], UA(50, "p", "q")),
            AA([";", N("p", Nt("HP"))], FA(51, "p")),
        ], pub=True, ty="u8"),
        NT("HP", [AA([N("l", Nt("IZ")), N("r", Nt("IB"))], FA(52, "l", "r"))], inline=True, ty="u8"),
        NT("IZ", [AA(["+", N("x", Tm("n"))], FA(53, "x"))], inline=True, ty="u8"),
        NT("IB", [AA(["-", N("y", Tm("n"))], FA(54, "y"))], inline=True, ty="u8"),
    ], tags=["inlined nonterminal mentioning two different inlined nonterminals", "inline dependency order"])))

    # --- inlined nonterminals whose value is not used by the outer action: empty `()`-typed "gates" (fallible and not) and an
    # unnamed u8-typed one; their actions still run, in symbol order, before the outer action
    gs.append(finalize(Grammar("act_inline4", terms("n:u8 + ( ) ;"), [
        NT("S", [
            AA(["(", N("x", Tm("n")), Nt("GateF"), ")"], UA(70, "x")),
            AA([";", Nt("GateU"), N("x", Tm("n")), Nt("GateF")], FA(71, "x")),
            AA(["+", Nt("Skip"), N("y", Nt("IV")), Nt("GateU")], UA(76, "y")),
        ], pub=True, ty="u8"),
        NT("GateF", [AA([], ("fallible_unit", 72, []))], inline=True, ty="()"),
        NT("GateU", [AA([], ("user_unit", 73, []))], inline=True, ty="()"),
        NT("Skip", [AA([N("k", Tm("n"))], UA(74, "k"))], inline=True, ty="u8"),
        NT("IV", [AA([N("k", Tm("n"))], FA(75, "k"))], inline=True, ty="u8"),
    ], tags=["inlined nonterminal whose value is unused", "empty unit-typed inlined production with an action", "fallible gate"])))

    # --- @R / @L directly around a MULTI-symbol inlined item (the span of an inlined item is first-child start .. last-child end)
    gs.append(finalize(Grammar("act_loc2", terms("n:u8 + ; ("), [
        NT("S", [
            AA([N("p", Nt("IP")), N("e", R), ";"], UA(90, "p", ("loc", "e"))),
            AA(["(", N("s", L), N("p", Nt("IP")), N("e", R)], UA(91, ("loc", "s"), "p", ("loc", "e"))),
            AA([";", N("q", Nt("IW")), N("e", R), "+"], UA(92, "q", ("loc", "e"))),
        ], pub=True, ty="u8"),
        NT("IP", [AA([N("a", Tm("n")), "+", N("b", Tm("n"))], UA(93, "a", "b"))], inline=True, ty="u8"),
        NT("IW", [AA([N("x", Nt("IP"))], UA(94, "x"))], inline=True, ty="u8"),
    ], tags=["@R behind a multi-symbol inlined item", "nested inlined item span"])))

    # --- repetition operators and groups: Vec in input order, Option, selected symbol of a group (C13 values)
    gs.append(finalize(Grammar("act_reps", terms("n:u8 , ; ( +"), [
        NT("S", [
            AA([N("v", Rep(Tm("n"), "*")), ";", N("o", Rep(Tm("n"), "?")), N("w", Rep(Grp((Tm(","), Sel(Tm("n")))), "+"))],
               UA(60, ("vec", "v"), ("opt", "o"), ("vec", "w"))),
            AA(["(", N("p", Rep(Nt("Q"), "+")), N("q", Rep(Grp((Tm("+"), Sel(Nt("Q")))), "?"))], UA(61, ("vec", "p"), ("opt", "q"))),
        ], pub=True, ty="u8"),
        NT("Q", [AA([N("a", Tm("n")), ","], UA(62, "a"))], ty="u8"),
    ], tags=["X*", "X+", "X?", "group with a selected symbol", "Vec order", "Option"])))

    # --- fallible non-inlined, start reduction
    gs.append(finalize(Grammar("act_fallible", terms("n:u8 + ;"), [
        NT("S", [AA([N("a", Nt("X")), ";"], FA(30, "a")), AA([";"], FA(31))], pub=True, ty="u8"),
        NT("X", [AA(["n"], FA(32)), AA([N("l", Nt("X")), "+", N("r", Nt("X2"))], FA(33, "l", "r"))], ty="u8"),
        NT("X2", [AA(["n"])], ty="u8"),
    ], tags=["fallible actions", "fallible action on the way to the start symbol"])))
    return gs


# ------------------------------------------------------------------------------------------------
# specification: what one reduction of one (inlined) production must do
# ------------------------------------------------------------------------------------------------

@dataclass
class Leaf:
    name: str          # LALRPOP-style display: "E" or "\"+\""
    cls: str           # u8 | tok | loc | pair | unit


@dataclass
class Node:
    kind: str          # user | fallible | userall | mutinc | default
    id: int
    args: list         # list of value expressions
    ty: str            # class of the node's value


# value expressions:
#   ("leaf", i)                  value of leaf i
#   ("sub", Node)                value of an inlined nonterminal
#   ("lstart", i) / ("lend", i)  start / end location of leaf i
#   ("empty",)                   the empty-span position (lookahead start | end of symbol below | default)
#   ("pairfst", expr) / ("pairsnd", expr)
#   ("inc", expr)
#   ("tuple", [exprs]) / ("unit",)


@dataclass
class SpecProd:
    lhs: str
    leaves: list       # list[Leaf]
    root: object       # value expression for the pushed value (usually ("sub", Node))
    ty: str


def display(s):
    """LALRPOP's own printing of a symbol (used to match generated production comments)."""
    if isinstance(s, Tm):
        return '"%s"' % s.name
    if isinstance(s, Nt):
        return s.name
    if isinstance(s, Rep):
        return display(s.sym) + s.op
    if isinstance(s, Grp):
        return "(" + " ".join(display(x) for x in s.syms) + ")"
    if isinstance(s, Sel):
        return "<" + display(s.sym) + ">"
    if isinstance(s, Named):
        return "<%s:%s>" % (s.name, display(s.sym))
    if isinstance(s, Look):
        return s.kind
    raise TypeError(s)


def _cls_of_sym(g, defs, s):
    s0 = strip(s)
    if isinstance(s0, Rep) and s0.op == "+":
        return "vec"
    if isinstance(s0, Tm):
        t = [t for t in g.terms if t.name == s0.name][0]
        return "u8" if t.payload == "u8" else "tok"
    if isinstance(s0, Nt):
        return TYCLASS[defs[s0.name].ty]
    if isinstance(s0, Look):
        return "loc"
    raise TypeError(s0)


def _display(s):
    s0 = strip(s)
    if isinstance(s0, Tm):
        return '"%s"' % s0.name
    if isinstance(s0, (Rep, Grp)):
        return display(s0)
    return s0.name


def group_value(g, defs, grp, vals):
    """documented value of a parenthesised group: the selected symbols (single value or tuple), all of them if none is selected"""
    sel = [v for s, v in zip(grp.syms, vals) if isinstance(s, (Sel, Named))]
    if not sel:
        sel = list(vals)
    return sel[0] if len(sel) == 1 else ("tuple", sel)


def expand_seq(g, defs, syms):
    """Expansions of a symbol sequence (inline nonterminals, `?`, `*`, groups spliced): list of (leaves, [value expr per symbol])."""
    results = [([], [])]
    for s in syms:
        s0 = strip(s)
        new = []
        if isinstance(s0, Look):
            for leaves, exprs in results:
                new.append((leaves, exprs + [("look", s0.kind, len(leaves))]))
        elif isinstance(s0, Nt) and defs[s0.name].inline:
            sub = defs[s0.name]
            for leaves, exprs in results:
                for salt in sub.alts:
                    for sleaves, snode in expand_alt_node(g, defs, sub, salt):
                        new.append((leaves + sleaves, exprs + [("sub", _shift_node(snode, len(leaves)))]))
        elif isinstance(s0, Grp):
            for leaves, exprs in results:
                for sleaves, svals in expand_seq(g, defs, list(s0.syms)):
                    off = len(leaves)
                    new.append((leaves + sleaves, exprs + [group_value(g, defs, s0, [_shift(v, off) for v in svals])]))
        elif isinstance(s0, Rep) and s0.op == "?":
            for leaves, exprs in results:
                new.append((leaves, exprs + [("none",)]))
                for sleaves, svals in expand_seq(g, defs, [s0.sym]):
                    off = len(leaves)
                    new.append((leaves + sleaves, exprs + [("some", _shift(svals[0], off))]))
        elif isinstance(s0, Rep) and s0.op == "*":
            plus = Rep(s0.sym, "+")
            for leaves, exprs in results:
                new.append((leaves, exprs + [("vec", [])]))
                new.append((leaves + [Leaf(display(plus), "vec")], exprs + [("leaf", len(leaves))]))
        elif isinstance(s0, Rep) and s0.op == "+":
            for leaves, exprs in results:
                new.append((leaves + [Leaf(display(s0), "vec")], exprs + [("leaf", len(leaves))]))
        else:
            for leaves, exprs in results:
                new.append((leaves + [Leaf(_display(s), _cls_of_sym(g, defs, s))], exprs + [("leaf", len(leaves))]))
        results = new
    return results


def plus_nonterminals(g):
    """every `X+` (also the one behind `X*`) used in the grammar -> Rep"""
    found = {}

    def walk(s):
        s0 = strip(s)
        if isinstance(s0, Rep):
            if s0.op in "+*":
                p = Rep(s0.sym, "+")
                found[display(p)] = p
            walk(s0.sym)
        elif isinstance(s0, Grp):
            for x in s0.syms:
                walk(x)
    for n in g.nts:
        for a in n.alts:
            for s in a.syms:
                walk(s)
    return found


def expand_alt(g, defs, nt, alt):
    """All inlined expansions of one alternative: list of (leaves, item value exprs); lookarounds stay ("look", kind, pos)."""
    return expand_seq(g, defs, list(alt.syms))


def _shift(expr, off, memo=None):
    memo = {} if memo is None else memo
    k = expr[0]
    if k == "leaf":
        return ("leaf", expr[1] + off)
    if k in ("lstart", "lend"):
        return (k, expr[1] + off)
    if k == "look":
        return ("look", expr[1], expr[2] + off)
    if k == "sub":
        return ("sub", _shift_node(expr[1], off, memo))
    if k in ("pairfst", "pairsnd", "inc", "some"):
        return (k, _shift(expr[1], off, memo))
    if k in ("tuple", "vec"):
        return (k, [_shift(e, off, memo) for e in expr[1]])
    if k == "vecpush":
        return ("vecpush", _shift(expr[1], off, memo), _shift(expr[2], off, memo))
    return expr


def _copy_node(n: Node, f, memo):
    """copy of `n` with `f` applied to its argument and `pre` expressions; shared sub-nodes stay shared (memo by identity)"""
    if id(n) in memo:
        return memo[id(n)]
    n2 = Node(n.kind, n.id, [], n.ty)
    memo[id(n)] = n2
    n2.pre = [f(a) for a in getattr(n, "pre", [])]
    n2.args = [f(a) for a in n.args]
    if hasattr(n, "argkinds"):
        n2.argkinds = n.argkinds
    return n2


def _shift_node(n: Node, off, memo=None):
    memo = {} if memo is None else memo
    return _copy_node(n, lambda a: _shift(a, off, memo), memo)


def has_sub(expr):
    k = expr[0]
    if k == "sub":
        return True
    if k in ("pairfst", "pairsnd", "inc", "some"):
        return has_sub(expr[1])
    if k in ("tuple", "vec"):
        return any(has_sub(e) for e in expr[1])
    if k == "vecpush":
        return has_sub(expr[1]) or has_sub(expr[2])
    return False


def expand_alt_node(g, defs, nt, alt):
    """-> list of (leaves, Node) for alternative `alt` of nonterminal `nt` (offsets relative to its own leaves;
    lookarounds left symbolic as ("look", kind, pos) to be resolved in the outermost production)."""
    out = []
    for leaves, exprs in expand_alt(g, defs, nt, alt):
        vals = list(exprs)
        # bindings
        names = {}
        selected = []
        any_named = any(isinstance(s, Named) for s in alt.syms)
        any_sel = any(isinstance(s, Sel) for s in alt.syms)
        for s, v in zip(alt.syms, vals):
            if isinstance(s, Named):
                if s.name.startswith("("):
                    a, b = [x.strip() for x in s.name.strip("()").split(",")]
                    names[a] = ("pairfst", v)
                    names[b] = ("pairsnd", v)
                else:
                    names[s.name] = v
                selected.append(v)
            elif isinstance(s, Sel):
                selected.append(v)
        if not any_named and not any_sel:
            # nothing selected: all symbols are (lookarounds excluded? no: they are symbols too)
            selected = list(vals)
        ty = TYCLASS[nt.ty]
        act = getattr(alt, "act", None)
        if act is None:
            if ty == "unit":
                node = Node("default", 0, [("unit",)], ty)
            elif len(selected) == 1:
                node = Node("default", 0, [selected[0]], ty)
            else:
                node = Node("default", 0, [("tuple", selected)], ty)
        elif act[0] in ("user", "fallible", "user_unit", "fallible_unit"):
            args = [names[a[1]] if isinstance(a, tuple) else names[a] for a in act[2]]
            kinds = [a[0] if isinstance(a, tuple) else "u8" for a in act[2]]
            node = Node(act[0].replace("_unit", ""), act[1], args, ty)
            node.argkinds = kinds
        elif act[0] in ("userall", "usereach"):
            node = Node("user", act[1], list(selected), ty)
        elif act[0] == "mutinc":
            node = Node("user", act[1], [("inc", names[act[2]])], ty)
        else:
            raise ValueError(act)
        # every inlined symbol of the alternative is evaluated, in symbol order, whether or not the action uses its value
        node.pre = [v for v in vals if has_sub(v)]
        out.append((leaves, node))
    return out


def _resolve_looks(expr, nleaves, memo=None):
    memo = {} if memo is None else memo
    k = expr[0]
    if k == "look":
        kind, pos = expr[1], expr[2]
        # @L: start of the following symbol, else end of the preceding one, else the empty-span position
        if kind == "@L":
            if pos < nleaves:
                return ("lstart", pos)
            if pos - 1 >= 0 and nleaves > 0:
                return ("lend", pos - 1)
            return ("empty",)
        else:
            if pos - 1 >= 0 and nleaves > 0:
                return ("lend", pos - 1)
            if pos < nleaves:
                return ("lstart", pos)
            return ("empty",)
    if k == "sub":
        return ("sub", _copy_node(expr[1], lambda a: _resolve_looks(a, nleaves, memo), memo))
    if k in ("pairfst", "pairsnd", "inc", "some"):
        return (k, _resolve_looks(expr[1], nleaves, memo))
    if k in ("tuple", "vec"):
        return (k, [_resolve_looks(e, nleaves, memo) for e in expr[1]])
    if k == "vecpush":
        return ("vecpush", _resolve_looks(expr[1], nleaves, memo), _resolve_looks(expr[2], nleaves, memo))
    return expr


def spec_productions(g: Grammar):
    """-> {(lhs, tuple(leaf display names)): SpecProd} for every non-inline nonterminal."""
    defs = {n.name: n for n in g.nts}
    out = {}
    for n in g.nts:
        if n.inline:
            continue
        for alt in n.alts:
            for leaves, node in expand_alt_node(g, defs, n, alt):
                root = _resolve_looks(("sub", node), len(leaves))
                key = (n.name, tuple(l.name for l in leaves))
                if key in out:
                    raise ValueError("corpus grammar %s: two alternatives with the same production %r" % (g.name, key))
                out[key] = SpecProd(n.name, leaves, root, TYCLASS[n.ty])
    # the builtin `X+` nonterminals: X+ = X => vec![x] ; X+ = X+ X => push
    for name, plus in plus_nonterminals(g).items():
        for leaves, vals in expand_seq(g, defs, [plus.sym]):
            v = _resolve_looks(vals[0], len(leaves))
            out[(name, tuple(l.name for l in leaves))] = SpecProd(name, leaves, ("vec", [v]), "vec")
            leaves2 = [Leaf(name, "vec")] + leaves
            v2 = _resolve_looks(_shift(vals[0], 1), len(leaves2))
            out[(name, tuple(l.name for l in leaves2))] = SpecProd(name, leaves2, ("vecpush", ("leaf", 0), v2), "vec")
    return out


# --------------------------------------------------------------------------------------------
# terminal conversion (C02): extern tokens with several `<T>` captures.  The documented value of such a
# terminal is the tuple of the captured values in the order they are written; terminals with the same
# tuple type share one symbol variant in the generated code, and struct-like patterns name their fields.
# Each entry: (terminal, Rust pattern with %s holes, [field types], variant declaration)
# --------------------------------------------------------------------------------------------

TTS_TERMS = [
    ("a", "Tok::A(%s)", ["u8"], "A(u8)"),
    ("p", "Tok::P(%s, %s)", ["u8", "u8"], "P(u8, u8)"),
    ("k", "Tok::K", [], "K"),
    ("q", "Tok::Q(%s, %s)", ["u8", "u8"], "Q(u8, u8)"),
    ("t", "Tok::T(%s, %s, %s)", ["u8", "u16", "u8"], "T(u8, u16, u8)"),
    ("row", "Tok::Row(" + ", ".join(["%s"] * 12) + ")", ["u8"] * 12, "Row(" + ", ".join(["u8"] * 12) + ")"),
    ("w", "Tok::W { lo: %s, hi: %s }", ["u8", "u8"], "W { lo: u8, hi: u8 }"),
    ("m", "Tok::M(%s, %s)", ["u16", "u8"], "M(u16, u8)"),
]


def tts_words(ty, expr):
    """u8 words that the recording action logs for one captured component"""
    return [expr] if ty == "u8" else ["%s as u8" % expr, "(%s >> 8) as u8" % expr]


def tts_grammar():
    """-> (lalrpop text, Rust text of the token module).  One production per terminal; action id = index + 1."""
    L = ["use crate::t_tts::Tok;", "use crate::rec_tts as rec;", "grammar;", "extern {", "    type Location = usize;", "    type Error = u8;", "    enum Tok {"]
    for name, pat, tys, _ in TTS_TERMS:
        L.append('        "%s" => %s,' % (name, pat % tuple("<%s>" % t for t in tys)))
    L += ["    }", "}", "pub S: u8 = {"]
    for i, (name, pat, tys, _) in enumerate(TTS_TERMS):
        if not tys:
            L.append('    "%s" => rec::r(%d, &[]),' % (name, i + 1))
            continue
        comp = (lambda j: "x") if len(tys) == 1 else (lambda j: "x.%d" % j)
        words = [w for j, t in enumerate(tys) for w in tts_words(t, comp(j))]
        L.append('    <x:"%s"> => rec::r(%d, &[%s]),' % (name, i + 1, ", ".join(words)))
    L.append("};")
    T = ["#[allow(dead_code)]", "pub mod t_tts {", "    #[derive(Clone, Debug, PartialEq)]", "    pub enum Tok {"]
    T += ["        %s," % decl for _, _, _, decl in TTS_TERMS]
    T += ["    }", "}"]
    return "\n".join(L) + "\n", "\n".join(T) + "\n"
