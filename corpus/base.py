"""Base corpus: plain grammars (no surface sugar) that reach the LR-construction and table-emission
mechanisms.  Every grammar lists in `tags` the anchored mechanism it is meant to exercise."""
from .gram import *

_VARIANT = {
    "n": "N", "+": "Plus", "*": "Star", "(": "LP", ")": "RP", "-": "Minus", "a": "A", "b": "B",
    "c": "C", "d": "D", "e": "E", "x": "X", "y": "Y", "z": "Z", ",": "Comma", ";": "Semi",
    "if": "If", "then": "Then", "else": "Else", "=": "Eq", "?": "Quest", ":": "Colon", "!": "Bang",
    "[": "LB", "]": "RB", "id": "Id", "^": "Caret", "~": "Tilde", "<": "Lt", "/": "Slash",
    "w": "W", "u": "U", "v": "V",
}


def variant_of(name):
    if name in _VARIANT:
        return _VARIANT[name]
    if name.isalnum():
        return "K" + name
    return "P" + "".join("%02x" % ord(c) for c in name)


def terms(spec):
    """ "n:u8 + * ( )" -> [Term..]  (":ty" adds a payload)"""
    out = []
    for item in spec.split():
        if ":" in item and item != ":" and not item.startswith("::"):
            name, ty = item.rsplit(":", 1)
            if name == "":
                name, ty = ":", None
        else:
            name, ty = item, None
        out.append(Term(name, variant_of(name), ty))
    return out


def S(*xs):
    """symbols from strings: quoted-looking ones are decided by the grammar's terminal set later;
    here: strings starting with a lowercase letter or punctuation are terminals, capitalised are
    nonterminals."""
    out = []
    for x in xs:
        if isinstance(x, str):
            out.append(Nt(x) if (x[0].isupper()) else Tm(x))
        else:
            out.append(x)
    return out


def A(*xs, **kw):
    return Alt(S(*xs), **kw)


def base_grammars():
    gs = []

    gs.append(Grammar("expr", terms("n:u8 + * ( )"), [
        NT("E", [A("E", "+", "T"), A("T")], pub=True),
        NT("T", [A("T", "*", "F"), A("F")]),
        NT("F", [A("n"), A("(", "E", ")")]),
    ], tags=["left recursion", "unit reductions", "compressed goto"]))

    gs.append(Grammar("rrec", terms("a b c"), [
        NT("S", [A("a", "S"), A("b"), A("a", "c")], pub=True),
    ], tags=["right recursion", "shift/reduce lookahead"]))

    gs.append(Grammar("nullable", terms("a b c d e"), [
        NT("S", [A("X", "Y", "d")], pub=True),
        NT("X", [A(), A("a", "X")]),
        NT("Y", [A(), A("b"), A("c", "Y", "e")]),
    ], tags=["empty production in start state", "nullable chains"]))

    gs.append(Grammar("empty_start", terms("a b"), [
        NT("S", [A(), A("S", "a", "b")], pub=True),
    ], tags=["nullable start symbol", "EOF reduce in state 0"]))

    # LR(1) but not LALR(1) (dragon book 4.58-style)
    gs.append(Grammar("lr1_not_lalr", terms("a b c d e"), [
        NT("S", [A("a", "X", "d"), A("b", "Y", "d"), A("a", "Y", "e"), A("b", "X", "e")], pub=True),
        NT("X", [A("c")]),
        NT("Y", [A("c")]),
    ], tags=["lane-table state split", "LALR merge conflict"], not_lalr=True))

    # LALR(1), merged lookaheads delay error detection
    gs.append(Grammar("lalr_delay", terms("a b c d e"), [
        NT("S", [A("a", "X", "d"), A("b", "X", "e")], pub=True),
        NT("X", [A("c")]),
    ], tags=["LALR-merged lookahead that delays error"]))

    gs.append(Grammar("multi_pub", terms("a b c ( )"), [
        NT("P", [A("(", "Q", ")"), A("a")], pub=True),
        NT("Q", [A("P", "b"), A("Q", "c")], pub=True),
        NT("R", [A("Q"), A("R", "a", "a")], pub=True),
    ], tags=["multiple pub start symbols"]))

    gs.append(Grammar("stmt", terms("if else x"), [
        NT("S", [A("M"), A("U")], pub=True),
        NT("M", [A("if", "M", "else", "M"), A("x")]),
        NT("U", [A("if", "S"), A("if", "M", "else", "U")]),
    ], tags=["matched/unmatched if", "long productions"]))

    gs.append(Grammar("list2", terms("a , [ ] ;"), [
        NT("L", [A("[", "Items", "]"), A("[", "]")], pub=True),
        NT("Items", [A("Item"), A("Items", ",", "Item")]),
        NT("Item", [A("a"), A("L"), A("a", ";", "a")]),
    ], tags=["nested lists"]))

    # paper grammar G0-like (lane table paper): needs lookahead context through a chain
    gs.append(Grammar("lane_g0", terms("a b c d e"), [
        NT("G", [A("X", "c"), A("Y", "d")], pub=True),
        NT("X", [A("e", "X"), A("e")]),
        NT("Y", [A("e", "Y"), A("e")]),
    ], tags=["lane tracing", "reduce/reduce resolved by lookahead"]))

    gs.append(Grammar("lane_g1", terms("a b c d e"), [
        NT("G", [A("a", "X", "d"), A("a", "Y", "c"), A("b", "X", "c"), A("b", "Y", "d")], pub=True),
        NT("X", [A("e", "X"), A("e")]),
        NT("Y", [A("e", "Y"), A("e")]),
    ], tags=["lane-table state split", "paper example G1"], not_lalr=True))

    gs.append(Grammar("lane_g2", terms("a b c d e"), [
        NT("G", [A("a", "X", "d"), A("a", "Y", "c"), A("b", "X", "c"), A("b", "Y", "d")], pub=True),
        NT("X", [A("e")]),
        NT("Y", [A("e")]),
    ], tags=["lane-table state split", "reduce/reduce is the only difference (example G2)"], not_lalr=True))

    # G1 with two recursive letters: several inconsistent LR(0) states; splitting one clones another
    gs.append(Grammar("lane_g1_ef", terms("a b c d e x"), [
        NT("G", [A("a", "X", "d"), A("a", "Y", "c"), A("b", "X", "c"), A("b", "Y", "d")], pub=True),
        NT("X", [A("e", "X"), A("e"), A("x", "X"), A("x")]),
        NT("Y", [A("e", "Y"), A("e"), A("x", "Y"), A("x")]),
    ], tags=["lane-table state split", "several inconsistent states", "clone of an unresolved state"], not_lalr=True))

    gs.append(Grammar("lane_3way", terms("a b c d e x"), [
        NT("G", [A("a", "X", "d"), A("a", "Y", "c"), A("a", "Z", "x"), A("b", "X", "c"), A("b", "Y", "x"), A("b", "Z", "d")], pub=True),
        NT("X", [A("e", "X"), A("e")]),
        NT("Y", [A("e", "Y"), A("e")]),
        NT("Z", [A("e", "Z"), A("e")]),
    ], tags=["lane-table state split", "three-way reduce/reduce"], not_lalr=True))

    # the large example of the lane-table paper (shortest sentences have 6 tokens)
    g = Grammar("lane_large", terms("x y z u a b r t k s d c w v"), [
        NT("G", [A("x", "W", "a"), A("x", "V", "t"), A("y", "W", "b"), A("y", "V", "t"), A("z", "W", "r"), A("z", "V", "b"),
                 A("u", "U", "X", "a"), A("u", "U", "Y", "r")], pub=True),
        NT("W", [A("U", "X", "C")]),
        NT("V", [A("U", "Y", "d")]),
        NT("X", [A("k", "t", "U", "X", "P"), A("k", "t")]),
        NT("Y", [A("k", "t", "U", "Y", "u"), A("k", "t")]),
        NT("U", [A("U", "k", "t"), A("s")]),
        NT("E", [A("a"), A("b"), A("c"), A("v")]),
        NT("C", [A("c"), A("w")]),
        NT("P", [A("z")]),
    ], tags=["lane-table paper large example", "unused nonterminal E"])
    g.min_n = 7
    gs.append(g)

    # more than 127 states: the tables switch to i16 entries
    kws = ["k%d" % i for i in range(20)]
    g = Grammar("wide_i16", terms(" ".join(kws) + " a b c"), [
        NT("S", [A(k, "X%d" % i) for i, k in enumerate(kws)], pub=True),
    ] + [NT("X%d" % i, [A("a", "b", "c"), A("a", "c", "X%d" % i)] if i % 2 == 0 else [A("a", "X%d" % i, "b"), A("c")]) for i in range(20)],
        tags=["more than 127 states (i16 table entries)", "wide action rows"])
    g.heavy = True
    g.min_n = 4
    gs.append(g)

    # right-recursive lists inside two kinds of brackets: the reduce lookahead of the list is merged over both closers, so a wrong closer
    # is only rejected after a reduction chain as long as the list
    gs.append(Grammar("brackets2", terms("[ ] ( ) x"), [
        NT("D", [A("[", "I", "]"), A("(", "I", ")")], pub=True),
        NT("I", [A("x", "I"), A("x")]),
    ], tags=["right recursion under merged lookahead", "reduction chain proportional to the input before an error"]))

    gs.append(Grammar("palin", terms("a b c"), [
        NT("P", [A("a", "P", "a"), A("b", "P", "b"), A("c")], pub=True),
    ], tags=["center-marked palindromes", "deep stack"]))

    gs.append(Grammar("unitchain", terms("a b"), [
        NT("A1", [A("A2")], pub=True),
        NT("A2", [A("A3"), A("A2", "b")]),
        NT("A3", [A("A4")]),
        NT("A4", [A("a"), A()]),
    ], tags=["unit chain", "nullable through chain", "many reductions per shift"]))

    gs.append(Grammar("opt_tail", terms("a b c ;"), [
        NT("S", [A("Decl", "Tail")], pub=True),
        NT("Decl", [A("a", "Init")]),
        NT("Init", [A(), A("b", "a")]),
        NT("Tail", [A(";"), A(";", "S"), A("c", "Tail")]),
    ], tags=["optional parts", "EOF reduce"]))

    return gs


def recovery_grammars():
    """Grammars with `!` (error recovery).  Specification reading: `!` is a terminal that never occurs in the input."""
    gs = []
    gs.append(Grammar("rec_stmts", terms("x ; ( )"), [
        NT("S", [A(), A("S", "St")], pub=True),
        NT("St", [A("E", ";"), A(Err(), ";")]),
        NT("E", [A("x"), A("(", "E", ")"), A("(", Err(), ")")]),
    ], tags=["error productions at two depths", "error column"]))
    gs.append(Grammar("rec_list", terms("a , [ ]"), [
        NT("L", [A("[", "Items", "]"), A("[", "]")], pub=True),
        NT("Items", [A("Item"), A("Items", ",", "Item")]),
        NT("Item", [A("a"), A("L"), A(Err())]),
    ], tags=["error production as a whole item", "reduce under `!`"]))
    gs.append(Grammar("rec_expr", terms("n + * ( )"), [
        NT("E", [A("E", "+", "T"), A("T")], pub=True),
        NT("T", [A("T", "*", "F"), A("F")]),
        NT("F", [A("n"), A("(", "E", ")"), A(Err())]),
    ], tags=["calculator with error recovery (book chapter 8)"]))
    return gs
