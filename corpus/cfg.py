"""Plain context-free grammars: the *specification* side of the corpus.

Nothing in this file looks at LALRPOP code or output.  A CFG is

    Cfg(terms=[...terminal names...], prods={nt: [tuple_of_symbols, ...]})

where a symbol is a terminal name (member of `terms`) or a nonterminal name (key of `prods`).
Terminal names and nonterminal names live in disjoint spaces: terminals are written with a leading
`'` inside production bodies (e.g. "'+"), nonterminals without.

Provided:
  * reduced(cfg, start)                 – drop unproductive / unreachable nonterminals
  * language(cfg, start, n)             – the exact set of sentences of length <= n (fixpoint over
                                          finite string sets; independent brute-force oracle)
  * prefix_cfg(cfg, start)              – grammar of all prefixes of sentences (reduced input only)
  * to_cnf(cfg, starts)                 – Chomsky normal form with several start symbols
  * max_steps(cfg, start, n)            – max #shifts+#reductions of any derivation of a sentence
                                          of length <= n (used to derive the LR fuel bound)
  * cyk(cnf, start, word)               – python CYK (used to cross-check the CNF and by replay)
"""
from __future__ import annotations
from dataclasses import dataclass, field
from itertools import product


def T(name):
    return "'" + name


def is_term(sym):
    return sym.startswith("'")


@dataclass
class Cfg:
    terms: list
    prods: dict  # nt -> list[tuple[str,...]]

    def nts(self):
        return list(self.prods.keys())

    def copy(self):
        return Cfg(list(self.terms), {k: [tuple(p) for p in v] for k, v in self.prods.items()})


def productive_set(cfg: Cfg):
    prod = set()
    changed = True
    while changed:
        changed = False
        for a, ps in cfg.prods.items():
            if a in prod:
                continue
            for p in ps:
                if all(is_term(s) or s in prod for s in p):
                    prod.add(a)
                    changed = True
                    break
    return prod


def reduced(cfg: Cfg, starts):
    """Remove unproductive then unreachable nonterminals (from any of `starts`)."""
    if isinstance(starts, str):
        starts = [starts]
    prod = productive_set(cfg)
    prods = {}
    for a, ps in cfg.prods.items():
        if a not in prod:
            continue
        prods[a] = [p for p in ps if all(is_term(s) or s in prod for s in p)]
    reach = set()
    work = [s for s in starts if s in prods]
    while work:
        a = work.pop()
        if a in reach:
            continue
        reach.add(a)
        for p in prods[a]:
            for s in p:
                if not is_term(s) and s not in reach:
                    work.append(s)
    return Cfg(list(cfg.terms), {a: ps for a, ps in prods.items() if a in reach})


def is_reduced(cfg: Cfg, starts):
    r = reduced(cfg, starts)
    return set(r.prods.keys()) == set(cfg.prods.keys()) and all(
        len(r.prods[a]) == len(cfg.prods[a]) for a in cfg.prods)


def language(cfg: Cfg, start, n):
    """Exact set of sentences (tuples of terminal names without the quote) of length <= n."""
    lang = {a: set() for a in cfg.prods}
    changed = True
    while changed:
        changed = False
        for a, ps in cfg.prods.items():
            for p in ps:
                # concatenate
                acc = {()}
                for s in p:
                    if is_term(s):
                        nxt = {w + (s[1:],) for w in acc if len(w) + 1 <= n}
                    else:
                        nxt = set()
                        for w in acc:
                            for v in lang[s]:
                                if len(w) + len(v) <= n:
                                    nxt.add(w + v)
                    acc = nxt
                    if not acc:
                        break
                new = acc - lang[a]
                if new:
                    lang[a] |= new
                    changed = True
    return lang[start] if start in lang else set()


def prefixes_of(lang_set):
    out = set()
    for w in lang_set:
        for i in range(len(w) + 1):
            out.add(w[:i])
    return out


def prefix_cfg(cfg: Cfg, starts):
    """Grammar whose nonterminal A^ derives exactly the prefixes (including the empty and the full
    string) of the strings derived from A.  Correct only if every nonterminal of `cfg` is
    productive (reduced grammar) – checked."""
    assert productive_set(cfg) == set(cfg.prods.keys()), "prefix_cfg needs a productive grammar"
    out = cfg.copy()
    for a, ps in cfg.prods.items():
        alts = [()]
        for p in ps:
            for i, s in enumerate(p):
                head = tuple(p[:i])
                if is_term(s):
                    alts.append(head + (s,))
                else:
                    alts.append(head + (s + "^",))
        # dedupe, keep order
        seen = []
        for x in alts:
            if x not in seen:
                seen.append(x)
        out.prods[a + "^"] = seen
    return out


@dataclass
class Cnf:
    nts: list            # nonterminal names; index = bit position
    term_rules: list     # (A_index, terminal_name)
    bin_rules: list      # (A_index, B_index, C_index)
    nullable: dict       # start name -> bool (start derives the empty string)
    start_index: dict    # start name -> index (or None if it only derives epsilon / nothing)


def to_cnf(cfg: Cfg, starts):
    """CNF for the union of languages of `starts` (each kept as its own start symbol).
    Textbook order: TERM, BIN, DEL, UNIT.  No START step is needed because start symbols are only
    looked up in the CYK table, and nullability is reported separately."""
    prods = {a: [list(p) for p in ps] for a, ps in cfg.prods.items()}
    fresh = [0]

    def new_nt(hint):
        fresh[0] += 1
        return "%s#%d" % (hint, fresh[0])

    # TERM: terminals in bodies of length >= 2 get their own nonterminal
    term_nt = {}
    for a in list(prods.keys()):
        for p in prods[a]:
            if len(p) >= 2:
                for i, s in enumerate(p):
                    if is_term(s):
                        if s not in term_nt:
                            term_nt[s] = new_nt("t")
                        p[i] = term_nt[s]
    for s, nt in term_nt.items():
        prods[nt] = [[s]]
    # BIN
    for a in list(prods.keys()):
        newps = []
        for p in prods[a]:
            while len(p) > 2:
                x = new_nt("b")
                prods[x] = [p[-2:]]
                p = p[:-2] + [x]
            newps.append(p)
        prods[a] = newps
    # DEL
    nullable = set()
    changed = True
    while changed:
        changed = False
        for a, ps in prods.items():
            if a in nullable:
                continue
            for p in ps:
                if all((not is_term(s)) and s in nullable for s in p):
                    nullable.add(a)
                    changed = True
                    break
    for a in list(prods.keys()):
        newps = []
        for p in prods[a]:
            if len(p) == 0:
                continue
            if len(p) == 1:
                newps.append(p)
            else:
                b, c = p
                newps.append([b, c])
                if b in nullable:
                    newps.append([c])
                if c in nullable:
                    newps.append([b])
        # dedupe
        ded = []
        for p in newps:
            if p not in ded:
                ded.append(p)
        prods[a] = ded
    # UNIT: unit closure
    unit = {a: {a} for a in prods}
    changed = True
    while changed:
        changed = False
        for a in prods:
            for b in list(unit[a]):
                for p in prods[b]:
                    if len(p) == 1 and not is_term(p[0]) and p[0] not in unit[a]:
                        unit[a].add(p[0])
                        changed = True
    final = {}
    for a in prods:
        ps = []
        for b in unit[a]:
            for p in prods[b]:
                if len(p) == 1 and not is_term(p[0]):
                    continue
                if p not in ps:
                    ps.append(p)
        final[a] = ps
    # keep only nonterminals that are productive & reachable from the starts
    c2 = reduced(Cfg(list(cfg.terms), {a: [tuple(p) for p in ps] for a, ps in final.items()}), list(starts))
    nts = list(c2.prods.keys())
    idx = {a: i for i, a in enumerate(nts)}
    term_rules, bin_rules = [], []
    for a in nts:
        for p in c2.prods[a]:
            if len(p) == 1:
                assert is_term(p[0])
                term_rules.append((idx[a], p[0][1:]))
            else:
                assert len(p) == 2 and not is_term(p[0]) and not is_term(p[1]), p
                bin_rules.append((idx[a], idx[p[0]], idx[p[1]]))
    return Cnf(nts, term_rules, bin_rules,
               {s: (s in nullable) for s in starts},
               {s: idx.get(s) for s in starts})


def cyk(cnf: Cnf, start, word):
    n = len(word)
    if n == 0:
        return cnf.nullable[start]
    si = cnf.start_index[start]
    if si is None:
        return False
    t = [[0] * (n + 1) for _ in range(n)]
    for i, w in enumerate(word):
        m = 0
        for a, x in cnf.term_rules:
            if x == w:
                m |= 1 << a
        t[i][1] = m
    for l in range(2, n + 1):
        for i in range(0, n - l + 1):
            m = 0
            for k in range(1, l):
                b, c = t[i][k], t[i + k][l - k]
                if b == 0 or c == 0:
                    continue
                for (a, bb, cc) in cnf.bin_rules:
                    if (b >> bb) & 1 and (c >> cc) & 1:
                        m |= 1 << a
            t[i][l] = m
    return bool((t[0][n] >> si) & 1)


def max_steps(cfg: Cfg, start, n):
    """max over sentences w, |w| <= n, of (number of leaves + number of internal nodes) of a
    derivation tree of w.  Returns None if unbounded (cyclic grammar)."""
    NEG = -1
    best = {a: [NEG] * (n + 1) for a in cfg.prods}
    limit = (len(cfg.prods) + 2) * (n + 2) * 4 + 16
    for it in range(limit):
        changed = False
        for a, ps in cfg.prods.items():
            for p in ps:
                # dp over body: cur[l] = best node count of deriving a string of length l from prefix of body
                cur = [NEG] * (n + 1)
                cur[0] = 0
                for s in p:
                    nxt = [NEG] * (n + 1)
                    for l in range(n + 1):
                        if cur[l] == NEG:
                            continue
                        if is_term(s):
                            if l + 1 <= n:
                                nxt[l + 1] = max(nxt[l + 1], cur[l] + 1)
                        else:
                            for l2 in range(n - l + 1):
                                if best[s][l2] != NEG:
                                    nxt[l + l2] = max(nxt[l + l2], cur[l] + best[s][l2])
                    cur = nxt
                for l in range(n + 1):
                    if cur[l] != NEG and cur[l] + 1 > best[a][l]:
                        best[a][l] = cur[l] + 1
                        changed = True
        if not changed:
            m = max(best[start])
            return m if m != NEG else 0
    return None


def sentence_lengths(cfg: Cfg, start, n):
    return sorted({len(w) for w in language(cfg, start, n)})


def production_reach(cfg: Cfg, start):
    """For every production: length of the shortest sentence whose derivation uses it (None if unusable).
    Used to check that the corpus reaches every mechanism *within the token bound* of a check."""
    INF = 10 ** 9
    minlen = {a: INF for a in cfg.prods}
    changed = True
    while changed:
        changed = False
        for a, ps in cfg.prods.items():
            for p in ps:
                t = 0
                for s in p:
                    t += 1 if is_term(s) else minlen.get(s, INF)
                if t < minlen[a]:
                    minlen[a] = t
                    changed = True
    ctx = {a: INF for a in cfg.prods}
    if start in ctx:
        ctx[start] = 0
    changed = True
    while changed:
        changed = False
        for b, ps in cfg.prods.items():
            if ctx[b] >= INF:
                continue
            for p in ps:
                lens = [1 if is_term(s) else minlen.get(s, INF) for s in p]
                tot = sum(lens)
                if tot >= INF:
                    continue
                for i, s in enumerate(p):
                    if not is_term(s):
                        c = ctx[b] + tot - lens[i]
                        if c < ctx[s]:
                            ctx[s] = c
                            changed = True
    out = {}
    for a, ps in cfg.prods.items():
        for i, p in enumerate(ps):
            tot = sum(1 if is_term(s) else minlen.get(s, INF) for s in p)
            v = ctx[a] + tot
            out[(a, i)] = None if v >= INF else v
    return out
