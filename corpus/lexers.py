"""Corpus for the built-in lexer (C09/C10/C11): terminal sets and match blocks as neutral data,
a printer to `.lalrpop`, and the documented precedence rules (never calls LALRPOP).

item   := ("lit", text, target) | ("re", text, target) | ("_",)
target := None (unmapped) | ("id", NAME) | "skip"
LexSpec(name, rungs=[[item,...],...] or None, used=[("lit",t)|("re",t)|("id",N)])
"""
from __future__ import annotations
import random
from dataclasses import dataclass, field
from typing import Optional


@dataclass
class LexSpec:
    name: str
    rungs: Optional[list]
    used: list
    note: str = ""
    expect: Optional[str] = None     # None | "ambiguity" | "unsupported"  (documentation only; the verdict is computed)


def lit_text(s):
    out = ['"']
    for c in s:
        if c == "\\":
            out.append("\\\\")
        elif c == '"':
            out.append('\\"')
        elif c == "\n":
            out.append("\\n")
        elif c == "\r":
            out.append("\\r")
        elif c == "\t":
            out.append("\\t")
        elif c == "\0":
            out.append("\\0")
        else:
            out.append(c)
    out.append('"')
    return "".join(out)


def re_text(s):
    if '"' not in s:
        return 'r"%s"' % s
    n = 1
    while ('"' + "#" * n) in s:
        n += 1
    return "r%s\"%s\"%s" % ("#" * n, s, "#" * n)


def term_text(t):
    if t[0] == "lit":
        return lit_text(t[1])
    if t[0] == "re":
        return re_text(t[1])
    return t[1]


def to_lalrpop(spec: LexSpec):
    out = ["grammar;"]
    if spec.rungs is not None:
        parts = []
        for rung in spec.rungs:
            lines = []
            for it in rung:
                if it[0] == "_":
                    lines.append("    _,")
                    continue
                txt = term_text(it)
                tgt = it[2]
                if tgt is None:
                    lines.append("    %s," % txt)
                elif tgt == "skip":
                    lines.append("    %s => { }," % txt)
                else:
                    lines.append("    %s => %s," % (txt, tgt[1]))
            parts.append("{\n" + "\n".join(lines) + "\n}")
        out.append("match " + " else ".join(parts))
    out.append("pub S: () = { T* => () };")
    out.append("T: () = {")
    for u in spec.used:
        out.append("    %s," % term_text(u))
    out.append("};")
    return "\n".join(out) + "\n"


@dataclass
class SpecEntry:
    kind: str            # "lit" | "re"
    text: str
    target: object       # ("term", key) | "skip"
    prec: tuple          # larger = wins; (rung rank, 1 if literal else 0)


def documented_entries(spec: LexSpec):
    """The lexer the documentation describes: list of SpecEntry, plus implicit-skip flag.
    Raises ValueError(msg) where the documentation says the grammar is in error."""
    entries = []
    listed = set()          # (kind, text) present in the match block
    names = set()
    rungs = spec.rungs if spec.rungs is not None else [[("_",)]]
    nr = len(rungs)
    catch = None
    for idx, rung in enumerate(rungs):
        rank = nr - idx          # earlier rung = higher
        for it in rung:
            if it[0] == "_":
                catch = rank
                continue
            kind, text, tgt = it
            if (kind, text) in listed:
                raise ValueError("multiple match entries")
            listed.add((kind, text))
            if tgt == "skip":
                target = "skip"
            elif tgt is None:
                target = ("term", (kind, text))
                names.add((kind, text))
            else:
                target = ("term", ("id", tgt[1]))
                names.add(("id", tgt[1]))
            entries.append(SpecEntry(kind, text, target, (rank, 1 if kind == "lit" else 0)))
    for u in spec.used:
        if u[0] == "id":
            if ("id", u[1]) not in names:
                raise ValueError("unknown terminal %s" % u[1])
            continue
        if (u[0], u[1]) in names:
            continue
        if catch is None:
            raise ValueError("terminal without match mapping")
        names.add((u[0], u[1]))
        entries.append(SpecEntry(u[0], u[1], ("term", (u[0], u[1])), (catch, 1 if u[0] == "lit" else 0)))
    implicit_skip = not any(e.target == "skip" for e in entries)
    return entries, implicit_skip


# ------------------------------------------------------------------------------------------------
# C10 corpus: single terminals
# ------------------------------------------------------------------------------------------------

META = list(".+*?()[]{}|^$\\-#&~ ")


def c10_literals(seed=0, thorough=False):
    rnd = random.Random(77 + seed)
    lits = []
    for cp in range(0x21, 0x7F):
        lits.append(chr(cp))
    pairs = [a + b for a in META for b in META if a != " " and b != " "]
    rnd.shuffle(pairs)
    lits += pairs[:(len(pairs) if thorough else 60)]
    lits += ["\\", "\"", "\\\"", "a\"b", "\\n", "\\\\", "a\\b", "\n", "\t", "\r", "\0", "a\nb", "\x7f", "\x01"]
    lits += ["é", "ü", "ß", "日本", "😀", "é", " ", " ", "xéy", "αβγ", "İ", "ǅ", "ﬁ", "﻿", "‍", "à́"]
    lits += ["if", "else", "==", "=>", "->", "::", "...", "<<=", "/*", "*/", "//", "(?:", "(?i)", "[a-z]", "\\d+", "a{2}", "x|y", "^$", "\\p{L}", "(?P<n>", "\\u{41}", "\\x41", "[[:alpha:]]", "&&", "--", "~~"]
    seen, out = set(), []
    for l in lits:
        if l not in seen and l != "":
            seen.add(l)
            out.append(l)
    return out


def c10_regexes(seed=0, thorough=False):
    res = [
        "[a-z]", "[^a-z]", "[a-zA-Z_][a-zA-Z0-9_]*", r"\d+", r"\w+", r"\s", r"\S+", r"\D", r"\W",
        r"\p{Greek}+", r"\p{Lu}", r"\P{L}", "(?i)abc", "(?i)é", "(?s).", ".", "a{2,4}", "a{3}", "a{2,}", "(ab|cd)*e", "(?:a|b)+",
        r"[\]\[]", r"\.", r"\\", r'"[^"]*"', r"/\*[^*]*\*+([^/*][^*]*\*+)*/", "0x[0-9a-fA-F]+",
        r"[+-]?\d+(\.\d+)?([eE][+-]?\d+)?", r"\u{e9}", "[αβγ]+", r"\x41", "[[:alpha:]]+", "[a-z&&[^aeiou]]", "a|b|c", "(a)(b)",
        "x*", r"[\s--\n]", "é+", "[é-ü]", r"[^\x00-\x7F]+", "(?i)[a-c]x", "(?x) a b  c", r"\n", r"\t", r"[\t ]+", r"#[^\n]*",
        r"'(\\.|[^'\\])'", r"[\p{L}\p{N}_]+", r"(a|ab)(c|bcd)", r"a?a?a?aaa", "[a-c][b-d]", "(?i:k)", r"\u{1F600}", r"[\u{1F600}-\u{1F64F}]",
        "a{0}", "a{0,1}b", "(|a)b", "()", "[^\\n]", "[a\\-z]", "[\\^a]", r"\-", r"\&", r"\~", r"\#", "~", "&", "#",
    ]
    if thorough:
        res += [r"\p{Han}", r"\p{Cyrillic}+\d", r"[\p{Ll}&&\p{Greek}]", r"\p{Alphabetic}", r"(?i)\p{Greek}", "(?i)ǆ", "(?i)ſ", r"\pL\pN*"]
    return res


# ------------------------------------------------------------------------------------------------
# C11 / C09 corpus: terminal sets with match blocks
# ------------------------------------------------------------------------------------------------

def L(t, tgt=None):
    return ("lit", t, tgt)


def R(t, tgt=None):
    return ("re", t, tgt)


def ID(n):
    return ("id", n)


def lexer_specs(seed=0):
    S = []
    # --- accepted ones (used by C09 and C11) ---
    S.append(LexSpec("plain", None, [("lit", "+"), ("lit", "++"), ("lit", "if"), ("re", "[a-z]+"), ("re", "[0-9]+")],
                     "no match block: literals beat regexes, implicit whitespace skip"))
    S.append(LexSpec("rungs", [[L("if", ID("IF")), R("[a-z]+", ID("ID")), R(r"//[^\n]*", "skip"), R(r"\s+", "skip")],
                               [R("[0-9]+"), L('é"x'), ("_",)]],
                     [ID("IF"), ID("ID"), ("re", "[0-9]+"), ("lit", 'é"x'), ("lit", "+"), ("re", r"\+\+")],
                     "two rungs, renamings, explicit skips, catch-all in the second rung"))
    S.append(LexSpec("kw_vs_id", [[L("let"), L("letrec", ID("LETREC"))], [R(r"[a-z]\w*", ID("ID"))], [R(r"\w+", ID("WORD")), ("_",)]],
                     [("lit", "let"), ID("LETREC"), ID("ID"), ID("WORD"), ("lit", "="), ("re", "=+>")],
                     "three rungs; regexes overlap across rungs only; catch-all terminals land in the last rung"))
    S.append(LexSpec("nonascii", None, [("lit", "é"), ("lit", "éé"), ("re", "[α-ω]+"), ("lit", "λ"), ("re", r"\d+"), ("lit", "١")],
                     "non-ASCII literals against Unicode classes (literal wins inside one rung)"))
    S.append(LexSpec("skip_first", [[R(r"[ \t]+", "skip"), R(r"#[^\n]*", "skip")], [L("\n", ID("NL")), ("_",)]],
                     [ID("NL"), ("lit", "a"), ("re", "[a-z][a-z]+")],
                     "newline is a token because the only skips are explicit; no implicit whitespace skip"))
    S.append(LexSpec("skip_low", [[L("\n", ID("NL")), R("[a-z]+", ID("W"))], [R(r"[ \t]+", "skip"), R(r"//[^\n]*", "skip"), ("_",)]],
                     [ID("NL"), ID("W"), ("lit", ";")],
                     "skip rules only in the LAST rung (lowest precedence); newline stays a token; no implicit whitespace skip"))
    S.append(LexSpec("skip_mid", [[L("if", ID("IF"))], [R(r"[ ]+", "skip")], [R("[a-z]+", ID("W")), L("\t", ID("TAB")), ("_",)]],
                     [ID("IF"), ID("W"), ID("TAB"), ("lit", "=")],
                     "skip rule in a middle rung; tab is a token"))
    S.append(LexSpec("same_target", [[R("[0-9]+", ID("NUM")), R("0x[0-9a-f]+", ID("HEX"))], [R("[a-f]+", ID("NUM2")), ("_",)]],
                     [ID("NUM"), ID("HEX"), ID("NUM2"), ("lit", "x")], "0x1 : `0` then `x1`? longest match decides"))
    S.append(LexSpec("covered_overlap", [[L("ab")], [R("a[a-c]"), R("[a-c]b")]], [("lit", "ab"), ("re", "a[a-c]"), ("re", "[a-c]b")],
                     "two equal-precedence regexes overlap only on a string a higher rung claims"))
    # --- longest match beyond a non-matching prefix (the scan must go on through non-accepting states)
    S.append(LexSpec("gap_float", None, [("re", r"[0-9]+(\.[0-9]+)?"), ("lit", "."), ("re", "[a-z]+")], "1.5 is one token, 1.x is three"))
    S.append(LexSpec("gap_lits", None, [("lit", "a"), ("lit", "abc"), ("lit", "b"), ("lit", "=="), ("lit", "====")], "abc vs a b ; ==== vs == == ; === is == then InvalidToken"))
    S.append(LexSpec("gap_rep", None, [("re", "(ab)+"), ("lit", "a"), ("re", "c+")], "ababa = abab a"))
    # --- rejected: ambiguity ---
    S.append(LexSpec("amb_two_regex", None, [("re", "[a-z]+"), ("re", "[a-c]x?")], "", "ambiguity"))
    S.append(LexSpec("amb_unicode_class", None, [("re", "[éa]x"), ("re", "éx")], "literal é inside a regex vs a class containing é", "ambiguity"))
    S.append(LexSpec("amb_unicode_lit2", None, [("re", "日+"), ("re", "[日本]")], "", "ambiguity"))
    S.append(LexSpec("amb_case", None, [("re", "(?i)k"), ("re", "K")], "(?i)k matches the Kelvin sign", "ambiguity"))
    S.append(LexSpec("amb_same_rung", [[R("[a-z]+", ID("A")), R("[a-z0-9]+", ID("B"))]], [ID("A"), ID("B")], "", "ambiguity"))
    S.append(LexSpec("amb_empty", None, [("re", "a*"), ("re", "b*")], "both match the empty string", "ambiguity"))
    S.append(LexSpec("amb_dot", None, [("re", "."), ("re", "é")], ". vs a 2-byte character", "ambiguity"))
    S.append(LexSpec("amb_neg_class", None, [("re", "[^a]"), ("re", "😀")], "negated class vs a 4-byte character", "ambiguity"))
    # --- boundary families: each construct overlapping exactly at its boundary, with the disjoint neighbour further down ---
    for nm, a, b in [("rep_min", "x{2,}", "x{2}"), ("rep_min3", "[a-z]{3,}", "[0-9a-f]{3}"), ("rep_max", "x{2,4}", "x{4}"), ("rep_lo", "x{2,4}", "x{2}"),
                     ("rep_exact", "x{3}", "x{3}y?"), ("star0", "ab*", "a"), ("opt0", "ab?c", "ac"), ("plus1", "ab+", "ab"), ("cls_hi", "[a-m]", "m"),
                     ("cls_lo", "[b-m]x", "bx"), ("alt_last", "(ab|cd|ef)", "ef"), ("neg_edge", "[^a-y]", "z"), ("nested_rep", "(ab){2,}", "abab"),
                     ("dot_nl", "a.b", "a b")]:
        S.append(LexSpec("amb_" + nm, None, [("re", a), ("re", b)], "boundary overlap", "ambiguity"))
    for nm, a, b in [("rep_min", "x{3,}", "x{2}"), ("rep_max", "x{2,4}", "x{5}"), ("rep_lo", "x{2,4}", "x"), ("plus0", "ab+", "a"), ("cls_hi", "[a-m]", "n"),
                     ("cls_lo", "[b-m]x", "ax"), ("neg_edge", "[^a-y]", "y"), ("nested_rep", "(ab){2,}", "ab"), ("dot_nl", "a.b", "a\\nb")]:
        S.append(LexSpec("disj_" + nm, None, [("re", a), ("re", b)], "just outside the boundary"))
    # --- accepted: disjoint although close ---
    S.append(LexSpec("disj_unicode", None, [("re", "[éa]x"), ("re", "èx")], "é vs è: same first UTF-8 byte, different code points"))
    S.append(LexSpec("disj_ranges", None, [("re", "[a-m]+"), ("re", "[n-z]+"), ("re", "[0-9]+[a-z]")], ""))
    S.append(LexSpec("disj_rungs", [[R("[a-z]+", ID("A"))], [R("[a-z0-9]+", ID("B"))]], [ID("A"), ID("B")], "same overlap as amb_same_rung but in different rungs"))
    S.append(LexSpec("disj_len", None, [("re", "a{2}"), ("re", "a{3}"), ("re", "a{5,}")], ""))
    S.append(LexSpec("disj_bytes", None, [("re", "é"), ("re", "Ã")], "é is C3 A9 in UTF-8, Ã is C3 83: byte-wise prefixes coincide, code points differ"))
    # --- rejected: unsupported features ---
    S.append(LexSpec("uns_wordb", None, [("re", r"\bfoo\b")], "", "unsupported"))
    S.append(LexSpec("uns_anchor", None, [("re", "^a")], "", "unsupported"))
    S.append(LexSpec("uns_nongreedy", None, [("re", "a+?")], "", "unsupported"))
    S.append(LexSpec("uns_named", None, [("re", "(?P<n>a)")], "", "unsupported"))
    return S


# ------------------------------------------------------------------------------------------------
# seeded random regexes / terminal sets (VERIF_SEED)
# ------------------------------------------------------------------------------------------------

_ATOMS = ["a", "b", "c", "x", "0", "1", "é", "λ", "日", r"\.", r"\+", r"\(", "-", "_", " ", ",",
          "[a-c]", "[b-y]", "[^a]", "[0-9]", "[a-z0-9_]", r"\d", r"\w", r"\s", r"\p{Greek}", r"\p{Lu}", ".", "[é-ü]", "[^\\n]", "[x-z&&[^y]]"]


def random_regex(rnd, depth=2):
    if depth == 0 or rnd.random() < 0.25:
        return rnd.choice(_ATOMS)
    k = rnd.random()
    if k < 0.35:
        return "".join(random_regex(rnd, depth - 1) for _ in range(rnd.randint(2, 3)))
    if k < 0.55:
        return "(" + "|".join(random_regex(rnd, depth - 1) for _ in range(rnd.randint(2, 3))) + ")"
    if k < 0.9:
        inner = random_regex(rnd, depth - 1)
        if (len(inner) > 1 and not (inner.startswith("[") and inner.endswith("]") and inner.count("[") == 1) and not (inner.startswith("\\") and len(inner) == 2)) \
                or inner[-1] in "*+?}":
            inner = "(" + inner + ")"
        op = rnd.choice(["*", "+", "?", "{2}", "{2,}", "{1,3}", "{0,2}", "{3,}"])
        return inner + op
    return "(?i)" + random_regex(rnd, depth - 1)


def random_specs(seed, count):
    """Random terminal sets: 2-4 regexes and 0-2 literals, with or without a match block of 1-3 rungs."""
    rnd = random.Random(9000 + seed)
    out = []
    lit_pool = ["a", "ab", "if", "+", "++", "é", "0", "xx", "..", "(", "λ", "a1"]
    for i in range(count):
        res = []
        while len(res) < rnd.randint(2, 4):
            r = random_regex(rnd, rnd.randint(1, 2))
            if r not in res and r != " ":
                res.append(r)
        lits = rnd.sample(lit_pool, rnd.randint(0, 2))
        terms_ = [("re", r) for r in res] + [("lit", l) for l in lits]
        if rnd.random() < 0.4:
            out.append(LexSpec("rnd%d" % i, None, terms_, "seeded random, no match block"))
            continue
        rnd.shuffle(terms_)
        nr = rnd.randint(1, 3)
        rungs = [[] for _ in range(nr)]
        used = []
        for j, t in enumerate(terms_):
            tgt = None
            if rnd.random() < 0.3:
                tgt = ("id", "T%d" % j)
            elif t[0] == "re" and rnd.random() < 0.15:
                tgt = "skip"
            rungs[rnd.randrange(nr)].append((t[0], t[1], tgt))
            if tgt is None:
                used.append((t[0], t[1]))
            elif tgt != "skip":
                used.append(("id", tgt[1]))
        rungs = [r for r in rungs if r]
        if rnd.random() < 0.5:
            rungs[rnd.randrange(len(rungs))].append(("_",))
            used.append(("lit", ";"))
        if not used:
            used.append(("lit", ";"))
            rungs[-1].append(("_",))
        out.append(LexSpec("rnd%d" % i, rungs, used, "seeded random match block"))
    return out


# ------------------------------------------------------------------------------------------------
# range-refinement family (C11): the lexer DFA splits the character ranges of all terminals of a state into
# disjoint pieces.  Shapes: two classes nested / staggered / sharing an end, literals whose first characters
# fall into each piece, pairs of equal-precedence literals that continue identically.  The verdict is z3's.
# ------------------------------------------------------------------------------------------------

def _pieces(A, B):
    """letters of A only-left-of-B..., as lists: [A∩B-left-part ...] -> dict piece name -> letters"""
    a = set(range(ord(A[0]), ord(A[1]) + 1))
    b = set(range(ord(B[0]), ord(B[1]) + 1))
    both = sorted(a & b)
    only_a = sorted(a - b)
    only_b = sorted(b - a)
    out = {}
    if both:
        out["both"] = [chr(c) for c in both]
    if only_a:
        out["only_a"] = [chr(c) for c in only_a]
    lo_b = [chr(c) for c in only_b if both and c < both[0]]
    hi_b = [chr(c) for c in only_b if both and c > both[-1]]
    if lo_b:
        out["b_low"] = lo_b
    if hi_b:
        out["b_high"] = hi_b
    return out


def refine_specs(seed=0, nrandom=30):
    out = []
    k = 0
    shapes = [(("a", "f"), ("a", "z")), (("c", "h"), ("a", "z")), (("a", "m"), ("h", "z")), (("h", "z"), ("a", "m")), (("d", "k"), ("d", "z")), (("p", "z"), ("a", "z"))]
    for A, B in shapes:
        pc = _pieces(A, B)
        for third_piece in pc:
            for pair_piece in pc:
                ls = pc[pair_piece]
                if len(ls) < 2:
                    continue
                x, y = ls[len(ls) // 2], ls[-1]
                t = pc[third_piece][len(pc[third_piece]) // 2]
                lits = [t + "o", x + "et", y + "et"]
                if len(set(lits)) < 3:
                    continue
                out.append(LexSpec("refine%d" % k, None, [("re", "[%s-%s]+:" % A), ("re", "[%s-%s]+=" % B)] + [("lit", l) for l in lits],
                                   "classes %s-%s / %s-%s, literal in piece %s, same-tail pair in piece %s" % (A + B + (third_piece, pair_piece))))
                k += 1
    # non-ASCII variant: a Latin-1 class against \w (whose ranges end/start inside it), an operator class outside \w
    out.append(LexSpec("refine_u0", None, [("re", r"\w+"), ("re", "[×÷]"), ("re", r"[à-ÿ]\."), ("lit", "été")], "Latin-1 class vs \\w, × and ÷ are not word characters"))
    out.append(LexSpec("refine_u1", None, [("re", r"\w+:"), ("re", "[¡-¿]+"), ("re", r"[ª-º]+\."), ("lit", "µ")], "punctuation block with letters ª µ º inside"))
    rnd = random.Random(7000 + seed)
    letters = "abcdefghijklmnopqrstuvwxyz"
    for i in range(nrandom):
        nre = rnd.randint(2, 3)
        res = []
        for j in range(nre):
            lo = rnd.randrange(0, 24)
            hi = rnd.randrange(lo, 26)
            res.append(("re", "[%s-%s]+%s" % (letters[lo], letters[hi], ":=!"[j])))
        tails = rnd.sample(["et", "o", "a", "et"], 2)
        lits = set()
        for _ in range(rnd.randint(2, 4)):
            lits.add(rnd.choice(letters) + rnd.choice(tails))
        out.append(LexSpec("refine_r%d" % i, None, res + [("lit", l) for l in sorted(lits)], "seeded random ranges and literals"))
    return out
