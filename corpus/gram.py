"""Neutral grammar descriptions for the corpus.

One description has two independent readings:

  * `to_lalrpop(g)`  – the `.lalrpop` text handed to the *real* generator;
  * `to_cfg(g, feats)` – the documented meaning of the surface constructs, written here from the
    LALRPOP book (macros by substitution, `* + ?` by the usual recursive definitions, precedence
    levels by tiering, `#[cfg]` by deletion, `#[inline]` by doing nothing): a plain CFG
    (`corpus.cfg.Cfg`).  This reading never calls LALRPOP.

Symbols (python objects):
  Tm("x")            terminal  "x"
  Nt("X")            nonterminal / macro parameter reference
  Rep(sym, "*")      X*  X+  X?
  Grp((a, b, ..))    ( a b .. )
  Mac("M", (a, b))   M<a, b>
  Err()              !
  Sel(sym)           <sym>
  Named("n", sym)    <n:sym>
  Look("@L")         @L / @R
"""
from __future__ import annotations
from dataclasses import dataclass, field
from typing import Optional
from . import cfg as C


@dataclass(frozen=True)
class Tm:
    name: str


@dataclass(frozen=True)
class Nt:
    name: str


@dataclass(frozen=True)
class Rep:
    sym: object
    op: str


@dataclass(frozen=True)
class Grp:
    syms: tuple


@dataclass(frozen=True)
class Mac:
    name: str
    args: tuple


@dataclass(frozen=True)
class Err:
    pass


@dataclass(frozen=True)
class Sel:
    sym: object


@dataclass(frozen=True)
class Named:
    name: str
    sym: object
    mut: bool = False


@dataclass(frozen=True)
class Look:
    kind: str  # "@L" | "@R"


# cfg predicates: ("feat", "a") | ("not", p) | ("all", [p..]) | ("any", [p..])
def cfg_eval(pred, feats):
    k = pred[0]
    if k == "feat":
        return pred[1] in feats
    if k == "not":
        return not cfg_eval(pred[1], feats)
    if k == "all":
        return all(cfg_eval(p, feats) for p in pred[1])
    if k == "any":
        return any(cfg_eval(p, feats) for p in pred[1])
    raise ValueError(pred)


def cfg_text(pred):
    k = pred[0]
    if k == "feat":
        return 'feature = "%s"' % pred[1]
    if k == "not":
        return "not(%s)" % cfg_text(pred[1])
    return "%s(%s)" % (k, ", ".join(cfg_text(p) for p in pred[1]))


@dataclass
class Alt:
    syms: list
    action: Optional[str] = None      # Rust expression text after `=>`
    fallible: bool = False            # `=>?`
    cond: Optional[tuple] = None      # (param, op, literal)  op in == != ~~ !~
    cfgs: list = field(default_factory=list)   # several attributes are conjoined
    prec: Optional[int] = None
    assoc: Optional[str] = None
    tag: Optional[int] = None         # free for engines (e.g. recording-action id)


@dataclass
class NT:
    name: str
    alts: list
    pub: bool = False
    inline: bool = False
    params: list = field(default_factory=list)
    ty: Optional[str] = "()"
    cfgs: list = field(default_factory=list)


@dataclass
class Term:
    name: str                 # grammar-side name, printed quoted
    variant: str              # Rust enum variant name
    payload: Optional[str] = None   # e.g. "u8": pattern Tok::V(<u8>)
    cfgs: list = field(default_factory=list)
    bare: bool = False        # declared as a bare identifier (`Num => Tok::Num`) and referenced as Nt("Num")


@dataclass
class Grammar:
    name: str
    terms: list
    nts: list
    lalr: bool = False
    tokmod: str = ""                # path of the token enum (default crate::t_<name>::Tok)
    error_ty: str = "u8"
    loc_ty: str = "usize"
    uses: list = field(default_factory=list)
    params: str = ""                # grammar parameter list text, e.g. "<'a>(x: u8)"
    note: str = ""
    tags: list = field(default_factory=list)   # mechanisms this grammar is meant to reach
    not_lalr: bool = False          # specification-side fact: LR(1) but not LALR(1)
    min_n: int = 0                  # smallest useful token bound (shortest interesting sentences)

    def term_names(self):
        return [t.name for t in self.terms]

    def pub_nts(self):
        return [n.name for n in self.nts if n.pub]


# ------------------------------------------------------------------------------------------------
# printer
# ------------------------------------------------------------------------------------------------

def sym_text(s):
    if isinstance(s, Tm):
        return '"%s"' % s.name.replace("\\", "\\\\").replace('"', '\\"')
    if isinstance(s, Nt):
        return s.name
    if isinstance(s, Rep):
        return sym_text(s.sym) + s.op
    if isinstance(s, Grp):
        return "(" + " ".join(sym_text(x) for x in s.syms) + ")"
    if isinstance(s, Mac):
        return "%s<%s>" % (s.name, ", ".join(sym_text(x) for x in s.args))
    if isinstance(s, Err):
        return "!"
    if isinstance(s, Sel):
        return "<" + sym_text(s.sym) + ">"
    if isinstance(s, Named):
        return "<%s%s:%s>" % ("mut " if s.mut else "", s.name, sym_text(s.sym))
    if isinstance(s, Look):
        return s.kind
    raise TypeError(s)


def to_lalrpop(g: Grammar, force_lalr=None, ascent=False):
    out = []
    lalr = g.lalr if force_lalr is None else force_lalr
    if ascent:
        out.append("#[recursive_ascent]")
    for u in g.uses:
        pass
    if lalr:
        out.append("#[LALR]")
    out.append("grammar%s;" % g.params)
    out.append("use %s;" % (g.tokmod or "crate::t_%s::Tok" % g.name))
    for u in g.uses:
        out.append("use %s;" % u)
    out.append("extern {")
    out.append("    type Location = %s;" % g.loc_ty)
    out.append("    type Error = %s;" % g.error_ty)
    out.append("    enum Tok {")
    for t in g.terms:
        for c in t.cfgs:
            out.append("        #[cfg(%s)]" % cfg_text(c))
        pat = "Tok::%s" % t.variant
        if t.payload:
            pat += "(<%s>)" % t.payload
        out.append('        %s => %s,' % (t.name if t.bare else sym_text(Tm(t.name)), pat))
    out.append("    }")
    out.append("}")
    for n in g.nts:
        for c in n.cfgs:
            out.append("#[cfg(%s)]" % cfg_text(c))
        if n.inline:
            out.append("#[inline]")
        head = ("pub " if n.pub else "") + n.name
        if n.params:
            head += "<%s>" % ", ".join(n.params)
        if n.ty is not None:
            head += ": " + n.ty
        out.append(head + " = {")
        for a in n.alts:
            attrs = []
            for c in a.cfgs:
                attrs.append("#[cfg(%s)]" % cfg_text(c))
            if a.prec is not None:
                attrs.append('#[precedence(level="%d")]' % a.prec)
            if a.assoc is not None:
                attrs.append('#[assoc(side="%s")]' % a.assoc)
            body = " ".join(sym_text(s) for s in a.syms)
            if a.cond is not None:
                p, op, lit = a.cond
                body += ' if %s %s "%s"' % (p, op, lit)
            if a.action is not None:
                body += (" =>? " if a.fallible else " => ") + a.action
            elif not a.syms:
                body += " => ()"     # an alternative needs symbols or an action
            line = "    " + (" ".join(attrs) + " " if attrs else "") + body + ","
            out.append(line)
        out.append("};")
    return "\n".join(out) + "\n"


# ------------------------------------------------------------------------------------------------
# reference semantics -> plain CFG
# ------------------------------------------------------------------------------------------------

class SpecReject(Exception):
    """The documented semantics says the grammar must be rejected (e.g. no pub symbol left)."""


def strip(s):
    """Remove value-level decoration (<..>, <n:..>)."""
    while isinstance(s, (Sel, Named)):
        s = s.sym
    return s


def _active(cfgs, feats):
    return all(cfg_eval(c, feats) for c in cfgs)


def apply_cfg(g: Grammar, feats):
    """#[cfg] = deletion of the inactive declarations."""
    nts = []
    for n in g.nts:
        if not _active(n.cfgs, feats):
            continue
        alts = [a for a in n.alts if _active(a.cfgs, feats)]
        nts.append(NT(n.name, alts, n.pub, n.inline, list(n.params), n.ty, []))
    terms = [t for t in g.terms if _active(t.cfgs, feats)]
    return terms, nts


def tier_precedence(n: NT):
    """Documented tiering of a precedence-annotated nonterminal.  Returns a list of NT.
    Levels sorted ascending; the loosest (largest) level keeps the name; level l is `name@l`
    (a spec-side name, deliberately not LALRPOP's own naming scheme)."""
    if not n.alts or (n.alts[0].prec is None and n.alts[0].assoc is None):
        return [n]
    cur_lvl, cur_assoc = None, "all"
    tagged = []
    for a in n.alts:
        if a.prec is not None:
            cur_lvl, cur_assoc = a.prec, "all"
        if a.assoc is not None:
            cur_assoc = a.assoc
        assert cur_lvl is not None, "first alternative must carry a precedence level"
        tagged.append((cur_lvl, cur_assoc, a))
    lvls = sorted({l for l, _, _ in tagged})
    top = lvls[-1]

    def lname(l):
        return n.name if l == top else "%s@%d" % (n.name, l)

    out = []
    for i, l in enumerate(lvls):
        prev = lname(lvls[i - 1]) if i > 0 else None
        alts = []
        for (al, assoc, a) in tagged:
            if al != l:
                continue
            # positions of recursive occurrences, in left-to-right order (nested ones included)
            occ = _occurrences(a.syms, n.name)
            k = len(occ)
            if assoc == "all":
                repl = [lname(l)] * k
            elif assoc == "none":
                assert prev is not None
                repl = [prev] * k
            elif assoc == "left":
                assert prev is not None
                repl = [lname(l)] + [prev] * (k - 1) if k else []
            elif assoc == "right":
                assert prev is not None
                repl = [prev] * (k - 1) + [lname(l)] if k else []
            else:
                raise ValueError(assoc)
            it = iter(repl)
            syms = [_subst_occ(s, n.name, it) for s in a.syms]
            alts.append(Alt(syms, a.action, a.fallible, a.cond, [], None, None, a.tag))
        if prev is not None:
            alts.append(Alt([Nt(prev)]))
        # only the original name is a start symbol of the specification (what LALRPOP does with the
        # helper levels' visibility is its own business)
        out.append(NT(lname(l), alts, n.pub and l == top, n.inline, list(n.params), n.ty, []))
    return out


def _occurrences(syms, name):
    occ = []
    for s in syms:
        _occ1(s, name, occ)
    return occ


def _occ1(s, name, occ):
    if isinstance(s, Nt):
        if s.name == name:
            occ.append(s)
    elif isinstance(s, Rep):
        _occ1(s.sym, name, occ)
    elif isinstance(s, Grp):
        for x in s.syms:
            _occ1(x, name, occ)
    elif isinstance(s, Mac):
        for x in s.args:
            _occ1(x, name, occ)
    elif isinstance(s, (Sel, Named)):
        _occ1(s.sym, name, occ)


def _subst_occ(s, name, it):
    if isinstance(s, Nt):
        return Nt(next(it)) if s.name == name else s
    if isinstance(s, Rep):
        return Rep(_subst_occ(s.sym, name, it), s.op)
    if isinstance(s, Grp):
        return Grp(tuple(_subst_occ(x, name, it) for x in s.syms))
    if isinstance(s, Mac):
        return Mac(s.name, tuple(_subst_occ(x, name, it) for x in s.args))
    if isinstance(s, Sel):
        return Sel(_subst_occ(s.sym, name, it))
    if isinstance(s, Named):
        return Named(s.name, _subst_occ(s.sym, name, it), s.mut)
    return s


def _subst_params(s, env):
    if isinstance(s, Nt):
        return env.get(s.name, s)
    if isinstance(s, Rep):
        return Rep(_subst_params(s.sym, env), s.op)
    if isinstance(s, Grp):
        return Grp(tuple(_subst_params(x, env) for x in s.syms))
    if isinstance(s, Mac):
        return Mac(s.name, tuple(_subst_params(x, env) for x in s.args))
    if isinstance(s, Sel):
        return Sel(_subst_params(s.sym, env))
    if isinstance(s, Named):
        return Named(s.name, _subst_params(s.sym, env), s.mut)
    return s


def _cond_holds(cond, env):
    import re
    p, op, lit = cond
    arg = strip(env[p])
    # conditions compare the *content* of a quoted-literal argument with the right-hand string
    if not isinstance(arg, Tm):
        raise SpecReject("macro condition on a non-literal argument")
    text = arg.name
    if op == "==":
        return text == lit
    if op == "!=":
        return text != lit
    if op == "~~":
        return re.search(lit, text) is not None
    if op == "!~":
        return re.search(lit, text) is None
    raise ValueError(op)


ERROR_TERM = "\x00error"


def to_cfg(g: Grammar, feats=frozenset(), error_as_terminal=True):
    """Plain CFG of the documented meaning.  Returns (Cfg, pub_starts)."""
    terms, nts = apply_cfg(g, set(feats))
    tiered = []
    for n in nts:
        tiered.extend(tier_precedence(n))
    defs = {n.name: n for n in tiered}
    if len(defs) != len(tiered):
        raise SpecReject("duplicate nonterminal")
    termset = {t.name for t in terms}
    bareset = {t.name for t in terms if t.bare}
    prods = {}
    names = {}       # canonical key -> fresh name
    uses_error = [False]

    def fresh(key, hint):
        if key not in names:
            names[key] = "%s$%d" % (hint, len(names))
        return names[key]

    def expand_sym(s):
        """-> CFG symbol; defines helper nonterminals on demand."""
        s = strip(s)
        if isinstance(s, Tm):
            if s.name not in termset:
                raise SpecReject("unknown terminal %s" % s.name)
            return C.T(s.name)
        if isinstance(s, Err):
            uses_error[0] = True
            return C.T(ERROR_TERM)
        if isinstance(s, Nt):
            if s.name not in defs and s.name in bareset:
                return C.T(s.name)       # a bare terminal (macro parameters were substituted before: they shadow it)
            if s.name not in defs:
                raise SpecReject("unknown nonterminal %s" % s.name)
            d = defs[s.name]
            if d.params:
                raise SpecReject("macro %s used without arguments" % s.name)
            ensure_nt(d, {})
            return s.name
        if isinstance(s, Rep):
            key = ("rep", s.op, s.sym if not isinstance(s.sym, (Sel, Named)) else strip(s.sym))
            name = fresh(key, "rep")
            if name not in prods:
                prods[name] = []
                x = expand_sym(s.sym)
                if s.op == "*":
                    # X* = eps | X+   (documented as zero or more)
                    prods[name] = [(), (name, x)]
                elif s.op == "+":
                    prods[name] = [(x,), (name, x)]
                elif s.op == "?":
                    prods[name] = [(), (x,)]
                else:
                    raise ValueError(s.op)
            return name
        if isinstance(s, Grp):
            key = ("grp", tuple(strip(x) for x in s.syms))
            name = fresh(key, "grp")
            if name not in prods:
                prods[name] = []
                prods[name] = [tuple(y for y in (expand_sym(x) for x in s.syms) if y is not None)]
            return name
        if isinstance(s, Mac):
            if s.name not in defs:
                raise SpecReject("unknown macro %s" % s.name)
            d = defs[s.name]
            if len(d.params) != len(s.args):
                raise SpecReject("macro arity")
            args = tuple(strip(a) for a in s.args)
            key = ("mac", s.name, args)
            name = fresh(key, s.name)
            if name not in prods:
                prods[name] = []
                env = dict(zip(d.params, args))
                body = []
                for a in d.alts:
                    if a.cond is not None and not _cond_holds(a.cond, env):
                        continue
                    syms = [_subst_params(x, env) for x in a.syms]
                    body.append(tuple(y for y in (expand_sym(x) for x in syms) if y is not None))
                prods[name] = body
            return name
        if isinstance(s, Look):
            return None
        raise TypeError(s)

    def ensure_nt(d, env):
        if d.name in prods:
            return
        prods[d.name] = []
        body = []
        for a in d.alts:
            body.append(tuple(y for y in (expand_sym(x) for x in a.syms) if y is not None))
        prods[d.name] = body

    starts = [n.name for n in tiered if n.pub and not n.params]
    if not starts:
        raise SpecReject("no public nonterminal")
    # every non-macro nonterminal is defined (LALRPOP resolves all of them, used or not)
    for n in tiered:
        if not n.params:
            ensure_nt(n, {})
    tnames = [t.name for t in terms] + ([ERROR_TERM] if uses_error[0] else [])
    return C.Cfg(tnames, prods), starts
