"""Corpus grammars that use LALRPOP's surface sugar: precedence/assoc annotations (C12), macros,
repetitions and conditions (C13), #[inline] (C14), #[cfg] (C15), adversarial names (C25).

The specification reading of every construct is corpus.gram.to_cfg (never LALRPOP)."""
import itertools
import random

from .gram import *
from .base import terms, S, A, variant_of


def P(level, *xs, assoc=None):
    return Alt(S(*xs), prec=level, assoc=assoc)


# ------------------------------------------------------------------------------------------------
# C12 precedence
# ------------------------------------------------------------------------------------------------

def prec_grammars(seed=0):
    gs = []
    # the book's calculator
    gs.append(Grammar("prec_calc", terms("n:u8 + - * / ( )"), [
        NT("E", [
            P(0, "n"), Alt(S("(", "E", ")")),
            P(1, "E", "*", "E", assoc="left"), Alt(S("E", "/", "E")),
            P(2, "E", "+", "E", assoc="left"), Alt(S("E", "-", "E")),
        ], pub=True),
    ], tags=["precedence levels", "assoc left", "inherit level and assoc"]))

    # right assoc, prefix, postfix, none, ternary
    gs.append(Grammar("prec_mixed", terms("n ^ - ! < ? : ( )"), [
        NT("E", [
            P(0, "n"), Alt(S("(", "E", ")")),
            P(1, "E", "!"),                                   # postfix, assoc all
            P(2, "-", "E"),                                   # prefix, assoc all
            P(3, "E", "^", "E", assoc="right"),
            P(5, "E", "<", "E", assoc="none"),
            P(8, "E", "?", "E", ":", "E", assoc="right"),
        ], pub=True),
    ], tags=["assoc right", "assoc none", "prefix", "postfix", "ternary", "non-contiguous levels"]))

    # a restated precedence on the same level resets the associativity to `all`;
    # an alternative without attributes inherits both
    gs.append(Grammar("prec_reset", terms("n = ! ~ ( ) ;"), [
        NT("E", [
            P(1, "n"), Alt(S("(", "E", ")")),
            P(4, "E", "=", "E", assoc="none"),
            P(4, "!", "E"),                                   # same level restated: assoc back to all
            P(6, "E", ";", "E", assoc="left"),
            Alt(S("~", "E", "~", "E")),                       # inherits level 6 and left
        ], pub=True),
    ], tags=["precedence restated resets assoc", "inherit", "none"]))

    # interleaved order of levels in the source, references from elsewhere = loosest level
    gs.append(Grammar("prec_interleaved", terms("n + * ( ) , [ ]"), [
        NT("L", [A("[", "Args", "]")], pub=True),
        NT("Args", [A("E"), A("Args", ",", "E")]),
        NT("E", [
            P(7, "E", "+", "E", assoc="left"),
            P(0, "n"),
            P(3, "E", "*", "E", assoc="right"),
            P(0, "(", "E", ")"),
            P(7, "[", "Args", "]"),
        ], pub=True),
    ], tags=["interleaved levels", "outside reference = loosest level", "two pub symbols"]))

    # left with three recursive occurrences and nested occurrence inside a group / repetition
    gs.append(Grammar("prec_nested_occ", terms("n + ? : ( )"), [
        NT("E", [
            P(0, "n"),
            P(2, "E", "?", "E", ":", "E", assoc="left"),
            P(4, "E", Grp(tuple(S("+", "E"))), assoc="left"),
        ], pub=True),
    ], tags=["ternary left", "recursive occurrence nested in group+repeat"]))

    rnd = random.Random(1000 + seed)
    gs.append(_seeded_prec("prec_seed%d" % (seed % 1000), rnd))
    return gs


def _seeded_prec(name, rnd):
    """A random operator table: every alternative carries explicit attributes so that shuffling the
    source order is meaning-preserving (by the documented semantics) – and the shuffle is applied."""
    ops = ["+", "*", "^", "<", "-", "!"]
    rnd.shuffle(ops)
    lvl = 0
    alts = [P(0, "n"), P(0, "(", "E", ")")]
    levels = sorted(rnd.sample(range(1, 30), 4))
    kinds = ["left", "right", "none", "prefix", "postfix"]
    for l, op in zip(levels, ops):
        k = rnd.choice(kinds)
        if k == "prefix":
            alts.append(P(l, op, "E", assoc="all" if rnd.random() < 0.5 else None))
        elif k == "postfix":
            alts.append(P(l, "E", op, assoc="all" if rnd.random() < 0.5 else None))
        else:
            alts.append(P(l, "E", op, "E", assoc=k))
    rnd.shuffle(alts)
    # prevalidation wants the first alternative annotated: all are
    return Grammar(name, terms("n + * ^ < - ! ( )"), [NT("E", alts, pub=True)],
                   tags=["seeded operator table", "shuffled source order", "random level numbers"])


# ------------------------------------------------------------------------------------------------
# C13 macros / repetition / conditions
# ------------------------------------------------------------------------------------------------

def macro_grammars(seed=0):
    gs = []
    T = Nt("T")
    gs.append(Grammar("mac_comma", terms("a b , ( ) ;"), [
        NT("Comma", [Alt([Rep(Grp((Sel(T), Tm(","))), "*"), Rep(T, "?")])], params=["T"], ty=None),
        NT("S", [A("(", Mac("Comma", (Tm("a"),)), ")"), A("b", Mac("Comma", (Nt("S"),)), ";")], pub=True),
    ], tags=["Comma<T>", "group repetition", "optional", "recursive use through macro"]))

    gs.append(Grammar("mac_reps", terms("a b c d"), [
        NT("S", [Alt([Rep(Tm("a"), "*"), Rep(Grp((Tm("b"), Rep(Tm("c"), "?"))), "+"), Rep(Nt("D"), "?")])], pub=True),
        NT("D", [A("d"), A("d", "D")]),
    ], tags=["X*", "(b c?)+", "X?"]))

    Sp = Nt("S")
    gs.append(Grammar("mac_cond", terms("ab a b x y z w"), [
        NT("Kw", [
            Alt([Sp, Tm("x")], cond=("S", "==", "a")),
            Alt([Sp, Tm("y")], cond=("S", "!=", "a")),
            Alt([Sp, Tm("z"), Tm("z")], cond=("S", "~~", "a")),
            Alt([Sp, Tm("w")], cond=("S", "!~", "^a")),
            Alt([Sp, Tm("w"), Tm("x")], cond=("S", "~~", "b$")),
        ], params=["S"], ty="()"),
        NT("Top", [A(Mac("Kw", (Tm("a"),))), A(Mac("Kw", (Tm("b"),)), "y"), A(Mac("Kw", (Tm("ab"),)), Rep(Mac("Kw", (Tm("a"),)), "?"))], pub=True),
    ], tags=["conditions == != ~~ !~", "substring vs anchored regex", "three instantiations of one macro"]))

    Aa, Bb = Nt("A"), Nt("B")
    gs.append(Grammar("mac_nested", terms("a b c ( )"), [
        NT("Pair", [Alt([Aa, Bb])], params=["A", "B"], ty=None),
        NT("List", [Alt([Rep(T, "+")])], params=["T"], ty=None),
        NT("Par", [Alt([Tm("("), T, Tm(")")])], params=["T"], ty=None),
        NT("S", [
            A(Mac("List", (Mac("Pair", (Tm("a"), Tm("b"))),)), "c", Mac("Pair", (Mac("List", (Tm("b"),)), Tm("a")))),
            A(Mac("Par", (Mac("Pair", (Tm("b"), Tm("a"))),))),
            A(Mac("Par", (Grp((Tm("a"), Tm("b"))),)), "c"),
        ], pub=True),
    ], tags=["nested macro uses", "Pair<a,b> vs Pair<b,a>", "macro arg = group", "distinct instantiations"]))
    gs[-1].min_n = 7

    # same macro instantiated with a literal and with a nonterminal; macro calling macro with its parameter
    gs.append(Grammar("mac_forward", terms("a b , ;"), [
        NT("Sep", [Alt([T]), Alt([Mac("Sep", (T, Nt("X"))), Nt("X"), T])], params=["T", "X"], ty="()"),
        NT("Two", [Alt([Mac("Sep", (T, Tm(","))), Tm(";"), Mac("Sep", (T, Tm(";")))])], params=["T"], ty=None),
        NT("Item", [A("a"), A("b", "b")]),
        NT("S", [A(Mac("Two", (Nt("Item"),))), A("b", Mac("Two", (Tm("a"),)))], pub=True),
    ], tags=["macro forwarding its parameter", "Sep<T,X> with two separators", "literal vs nonterminal argument"]))
    gs[-1].min_n = 6
    # a macro parameter spelled like a bare terminal of the extern enum: the parameter shadows the terminal inside the macro
    bt = [Term("Num", "KNum", None, [], True), Term("Comma", "KComma", None, [], True), Term("Semi", "KSemi", None, [], True)] + terms("( )")
    gs.append(Grammar("mac_shadow", bt, [
        NT("SepList", [Alt([T]), Alt([Mac("SepList", (T, Nt("Comma"))), Nt("Comma"), T])], params=["T", "Comma"], ty="()"),
        NT("S", [A("(", Mac("SepList", (Nt("Num"), Nt("Semi"))), ")"), A(Mac("SepList", (Nt("Num"), Nt("Comma"))))], pub=True),
    ], tags=["macro parameter named like a bare terminal", "scope: parameter shadows global"]))
    return gs


# ------------------------------------------------------------------------------------------------
# C14 inline
# ------------------------------------------------------------------------------------------------

def inline_bases():
    """(grammar, [inlinable nonterminal names])"""
    out = []
    out.append((Grammar("inl_ops", terms("n + - * ( )"), [
        NT("E", [A("E", "AddOp", "T"), A("T")], pub=True),
        NT("AddOp", [A("+"), A("-")]),
        NT("T", [A("T", "MulOp", "F"), A("F")]),
        NT("MulOp", [A("*")]),
        NT("F", [A("n"), A("(", "E", ")")]),
    ], tags=["inline operator classes"]), ["AddOp", "MulOp", "F"]))

    out.append((Grammar("inl_empty", terms("a b c d"), [
        NT("S", [A("Opt", "a", "Opt2", "b"), A("b", "Both", "d")], pub=True),
        NT("Opt", [A(), A("c")]),
        NT("Opt2", [A(), A("d", "d")]),
        NT("Both", [A("Opt", "a", "Opt", "b")]),
    ], tags=["empty inlined productions", "multiple occurrences in one alternative", "nested inlining"]), ["Opt", "Opt2", "Both"]))

    out.append((Grammar("inl_nested", terms("a b c ;"), [
        NT("S", [A("X", ";"), A("S", "X", ";")], pub=True),
        NT("X", [A("Y", "Y"), A("a", "Z")]),
        NT("Y", [A("b"), A("c", "Z")]),
        NT("Z", [A("c"), A("a", "b")]),
    ], tags=["nested inlining", "two occurrences"]), ["X", "Y", "Z"]))
    out[-1][0].min_n = 6
    return out


def inline_variants(seed=0, all_subsets_upto=3):
    gs = []
    for g, inl in inline_bases():
        subsets = []
        for r in range(len(inl) + 1):
            subsets += list(itertools.combinations(inl, r))
        for sub in subsets:
            nts = [NT(n.name, n.alts, n.pub, n.name in sub, list(n.params), n.ty, list(n.cfgs)) for n in g.nts]
            tag = "".join("1" if x in sub else "0" for x in inl)
            gs.append(Grammar("%s_%s" % (g.name, tag), g.terms, nts, tags=g.tags + ["inline subset %s" % (sub,)]))
            gs[-1].min_n = getattr(g, "min_n", 0)
    return gs


# ------------------------------------------------------------------------------------------------
# C15 cfg
# ------------------------------------------------------------------------------------------------

def cfg_grammars():
    fa, fb = ("feat", "a"), ("feat", "b")
    gs = []
    t = terms("x y z w ;")
    t[2].cfgs = [fa]                      # "z" only with feature a
    t[3].cfgs = [("any", [fa, fb])]       # "w" with a or b
    g = Grammar("cfg_mix", t, [
        NT("S", [
            A("x", "T"),
            Alt(S("y", "y"), cfgs=[("not", fb)]),
            Alt(S("z", "U"), cfgs=[fa]),
            Alt(S("w", ";"), cfgs=[("any", [fa, fb])]),
            Alt(S("x", "x", "V"), cfgs=[fa, fb]),                        # two attributes: conjunction
        ], pub=True),
        NT("T", [A(";"), Alt(S("y", "T"), cfgs=[("all", [fa, ("not", fb)])])]),
        NT("U", [A("x"), A("U", "z")], cfgs=[fa]),
        NT("V", [A("y"), A("w", "V")], cfgs=[("all", [fa, fb])]),
        NT("Q", [A("x", ";")], pub=True, cfgs=[("not", ("all", [fa, fb]))]),   # a pub symbol that disappears
    ], tags=["cfg on nonterminal", "cfg on alternative", "cfg on extern conversion", "not/all/any", "conjoined attributes"])
    g.features = ["a", "b"]
    gs.append(g)
    # three features, nested predicates, cfg on a macro-using alternative and on a terminal only used under the same predicate
    fc = ("feat", "c")
    t2 = terms("p q r s ;")
    t2[3].cfgs = [("all", [fa, ("any", [fb, fc])])]                     # "s"
    g2 = Grammar("cfg_nested", t2, [
        NT("S", [
            A("p", "X"),
            Alt(S("q", "q"), cfgs=[("not", ("any", [fa, fb]))]),
            Alt(S("s", ";"), cfgs=[("all", [fa, ("any", [fb, fc])])]),
            Alt(S("q", "Y"), cfgs=[("any", [("all", [fa, fb]), ("not", fc)])]),
            Alt(S("r", Rep(Tm("p"), "*"), ";"), cfgs=[("not", ("not", fc))]),
        ], pub=True),
        NT("X", [A(";"), Alt(S("r", "X"), cfgs=[("any", [fc, ("all", [fa, ("not", fb)])])])]),
        NT("Y", [A("p"), A("Y", "r")], cfgs=[("any", [("all", [fa, fb]), ("not", fc)])]),
    ], tags=["three features", "nested not/any/all", "double negation", "cfg on an alternative using a repetition"])
    g2.features = ["a", "b", "c"]
    g2.thorough_only = True
    gs.append(g2)
    return gs


def delete_inactive(g: Grammar, feats):
    """The grammar text with inactive declarations physically removed (and no cfg attributes)."""
    terms_, nts = apply_cfg(g, set(feats))
    tl = [Term(t.name, t.variant, t.payload, []) for t in terms_]
    return Grammar(g.name, tl, nts, g.lalr, g.tokmod, g.error_ty, g.loc_ty, list(g.uses), g.params,
                   tags=g.tags)


# ------------------------------------------------------------------------------------------------
# C25 hygiene: renamings
# ------------------------------------------------------------------------------------------------

ADVERSARIAL = ["__action0", "__Symbol", "__StateMachine", "__0", "__reduce1", "__ACTION", "__goto", "__tokens", "__nt",
               "__state_machine", "__lalrpop_util", "__TOKEN", "__ToTriple", "__parse__E", "__sym0", "__start", "__end",
               "__lookahead", "__Nonterminal", "__Variant0", "Variant0", "__token_to_integer", "__accepts", "alloc", "core", "Parser", "EParser"]


def rename_grammar(g: Grammar, mapping, newname):
    def rn(s):
        if isinstance(s, Nt):
            return Nt(mapping.get(s.name, s.name))
        if isinstance(s, Rep):
            return Rep(rn(s.sym), s.op)
        if isinstance(s, Grp):
            return Grp(tuple(rn(x) for x in s.syms))
        if isinstance(s, Mac):
            return Mac(mapping.get(s.name, s.name), tuple(rn(x) for x in s.args))
        if isinstance(s, Sel):
            return Sel(rn(s.sym))
        if isinstance(s, Named):
            return Named(s.name, rn(s.sym), s.mut)
        return s
    nts = []
    for n in g.nts:
        alts = [Alt([rn(x) for x in a.syms], a.action, a.fallible,
                    (mapping.get(a.cond[0], a.cond[0]), a.cond[1], a.cond[2]) if a.cond else None,
                    list(a.cfgs), a.prec, a.assoc, a.tag) for a in n.alts]
        nts.append(NT(mapping.get(n.name, n.name), alts, n.pub, n.inline, [mapping.get(p, p) for p in n.params], n.ty, list(n.cfgs)))
    out = Grammar(newname, g.terms, nts, g.lalr, g.tokmod, g.error_ty, g.loc_ty, list(g.uses), g.params,
                  tags=g.tags + ["renamed %s" % mapping], not_lalr=g.not_lalr)
    out.min_n = getattr(g, "min_n", 0)
    return out


def all_grammars(seed=0):
    return prec_grammars(seed) + macro_grammars(seed) + inline_variants(seed) + cfg_grammars()
