"""Shared plumbing: work dirs, building the real generator from /repo's working tree, running it,
Kani crates and their runner, evidence and known-finding files."""
from __future__ import annotations
import json
import os
import re
import resource
import shutil
import subprocess
import sys
import tempfile
import time
import atexit
from concurrent.futures import ThreadPoolExecutor
from dataclasses import dataclass, field

VERIF = os.path.dirname(os.path.dirname(os.path.abspath(__file__)))
REPO = os.environ.get("VERIF_REPO", "/repo")
NCPU = int(os.environ.get("VERIF_JOBS", str(os.cpu_count() or 8)))
HOOK_CFG = "lalrpop_verif"

OFFLINE_ENV = {"CARGO_NET_OFFLINE": "true", "GOPROXY": "off", "PIP_NO_INDEX": "1"}

_workdir = None


def workdir():
    """Scratch root for this process (removed at exit unless VERIF_KEEP=1)."""
    global _workdir
    if _workdir is None:
        base = os.environ.get("VERIF_WORK_BASE", "/var/tmp")
        os.makedirs(base, exist_ok=True)
        _workdir = tempfile.mkdtemp(prefix="verif-work-", dir=base)
        if os.environ.get("VERIF_KEEP") != "1":
            atexit.register(lambda: shutil.rmtree(_workdir, ignore_errors=True))
    return _workdir


def env_with(extra=None):
    e = dict(os.environ)
    e.update(OFFLINE_ENV)
    if extra:
        e.update(extra)
    return e


def log(msg):
    print(msg, flush=True)


class Inconclusive(Exception):
    """Raised when a run can be counted neither as discharged nor as a violation."""


# --------------------------------------------------------------------------------------------
# the real generator
# --------------------------------------------------------------------------------------------

_gen_bin = None


def hooks_rustflags():
    return "--cfg %s" % HOOK_CFG


def build_generator():
    """cargo build of /repo's *current working tree* (incremental, its own target/)."""
    global _gen_bin
    if _gen_bin:
        return _gen_bin
    t0 = time.time()
    target = os.environ.get("VERIF_REPO_TARGET", os.path.join(REPO, "target"))
    cmd = ["cargo", "build", "--offline", "-p", "lalrpop", "--bin", "lalrpop"]
    env = env_with({"CARGO_TARGET_DIR": target})
    r = subprocess.run(cmd, cwd=REPO, env=env, stdout=subprocess.PIPE, stderr=subprocess.STDOUT, text=True)
    if r.returncode != 0:
        sys.stdout.write(r.stdout[-4000:])
        raise Inconclusive("cannot build the generator from %s" % REPO)
    _gen_bin = os.path.join(target, "debug", "lalrpop")
    log("[build] generator built from %s in %.1fs" % (REPO, time.time() - t0))
    return _gen_bin


@dataclass
class GenResult:
    ok: bool
    rs: str            # generated text ("" if rejected)
    out: str           # stdout+stderr of the generator
    rc: int
    crashed: bool      # panic / signal rather than a diagnostic


ALGOS = {
    # name -> (force #[LALR], env)
    "lane": (False, {}),
    "lr1": (False, {"LALRPOP_LANE_TABLE": "disabled"}),
    "lalr": (True, {"LALRPOP_LANE_TABLE": "disabled"}),
}


def run_generator(text, name, env=None, features=None, extra_args=None, timeout=300):
    """Run the real lalrpop binary on `text`; returns GenResult."""
    gen = build_generator()
    d = tempfile.mkdtemp(prefix="gen-", dir=workdir())
    src = os.path.join(d, name + ".lalrpop")
    with open(src, "w") as f:
        f.write(text)
    cmd = [gen, "-f"]
    if features:
        cmd += ["--features", ",".join(features)]
    if extra_args:
        cmd += extra_args
    cmd.append(src)
    e = env_with(env or {})
    # never let the caller's environment choose the algorithm or features behind our back
    for k in list(e.keys()):
        if k.startswith("CARGO_FEATURE_") and not (env and k in env):
            del e[k]
    if not (env and "LALRPOP_LANE_TABLE" in env):
        e.pop("LALRPOP_LANE_TABLE", None)
    try:
        r = subprocess.run(cmd, cwd=d, env=e, stdout=subprocess.PIPE, stderr=subprocess.STDOUT,
                           text=True, timeout=timeout)
    except subprocess.TimeoutExpired:
        return GenResult(False, "", "TIMEOUT", -1, True)
    rs_path = os.path.join(d, name + ".rs")
    rs = ""
    if r.returncode == 0 and os.path.exists(rs_path):
        rs = open(rs_path).read()
    crashed = r.returncode not in (0, 1) or "panicked at" in r.stdout
    shutil.rmtree(d, ignore_errors=True)
    return GenResult(r.returncode == 0 and rs != "", rs, r.stdout, r.returncode, crashed)


_helpers = {}


def build_helper(name, what=""):
    """Build engines/<name> (a small crate with a path dependency on /repo/...) against the current REPO.
    With the default /repo the target dir persists under /verif/engines/<name>/target; with VERIF_REPO set the
    crate is copied to the scratch dir and its dependency paths are rewritten."""
    if name in _helpers:
        return _helpers[name]
    src = os.path.join(VERIF, "engines", name)
    if REPO == "/repo":
        d = src
    else:
        d = os.path.join(workdir(), "helper-" + name)
        shutil.copytree(src, d, ignore=shutil.ignore_patterns("target"), dirs_exist_ok=True)
        t = open(os.path.join(d, "Cargo.toml")).read().replace('path = "/repo/', 'path = "%s/' % REPO)
        open(os.path.join(d, "Cargo.toml"), "w").write(t)
    shutil.copy(os.path.join(REPO, "Cargo.lock"), os.path.join(d, "Cargo.lock"))
    t0 = time.time()
    r = subprocess.run(["cargo", "build", "--offline"], cwd=d, env=env_with({"RUSTFLAGS": "-Awarnings"}), stdout=subprocess.PIPE, stderr=subprocess.STDOUT, text=True)
    if r.returncode != 0:
        sys.stdout.write(r.stdout[-4000:])
        raise Inconclusive("cannot build engines/%s against %s" % (name, REPO))
    log("[build] %s %sbuilt against %s in %.1fs" % (name, what, REPO, time.time() - t0))
    _helpers[name] = os.path.join(d, "target", "debug", name)
    return _helpers[name]


_gendrv_bin = None


def build_gendrv():
    """engines/gendrv: tiny binary over the generator's *library* API (process_dir)."""
    return build_helper("gendrv", "(library API driver) ")


def run_generator_api(text, name, env=None, features=None, timeout=300):
    """Run the generator through Configuration::process_dir (reads CARGO_FEATURE_* when `features`
    is None; uses set_features otherwise)."""
    exe = build_gendrv()
    d = tempfile.mkdtemp(prefix="genapi-", dir=workdir())
    ind, outd = os.path.join(d, "in"), os.path.join(d, "out")
    os.makedirs(ind)
    os.makedirs(outd)
    with open(os.path.join(ind, name + ".lalrpop"), "w") as f:
        f.write(text)
    e = env_with({})
    for k in list(e.keys()):
        if k.startswith("CARGO_FEATURE_") or k == "LALRPOP_LANE_TABLE":
            del e[k]
    e.update(env or {})
    cmd = [exe, ind, outd]
    if features is not None:
        cmd += ["--features", ",".join(features)]
    try:
        r = subprocess.run(cmd, cwd=d, env=e, stdout=subprocess.PIPE, stderr=subprocess.STDOUT, text=True, timeout=timeout)
    except subprocess.TimeoutExpired:
        return GenResult(False, "", "TIMEOUT", -1, True)
    rs_path = os.path.join(outd, name + ".rs")
    rs = open(rs_path).read() if (r.returncode == 0 and os.path.exists(rs_path)) else ""
    crashed = r.returncode not in (0, 1) or "panicked at" in r.stdout
    shutil.rmtree(d, ignore_errors=True)
    return GenResult(r.returncode == 0 and rs != "", rs, r.stdout, r.returncode, crashed)


# --------------------------------------------------------------------------------------------
# Kani
# --------------------------------------------------------------------------------------------

@dataclass
class KaniResult:
    harness: str
    status: str           # SUCCESSFUL | FAILED | TIMEOUT | OOM | ERROR
    wall_s: float
    failed_checks: list = field(default_factory=list)   # descriptions of failed checks
    covers_sat: int = 0
    covers_total: int = 0
    unsat_covers: list = field(default_factory=list)
    checks_total: int = 0
    log: str = ""
    vccs: int = 0
    steps: int = 0


class KaniCrate:
    """A throw-away crate with a path dependency on /repo/lalrpop-util."""

    def __init__(self, name, util_features=None, default_features=False, extra_deps=""):
        self.name = name
        self.dir = os.path.join(workdir(), name)
        os.makedirs(os.path.join(self.dir, "src"), exist_ok=True)
        feats = ""
        if util_features:
            feats = ", features = [%s]" % ", ".join('"%s"' % f for f in util_features)
        toml = """[package]
name = "%s"
version = "0.0.0"
edition = "2021"
[dependencies]
lalrpop-util = { path = "%s/lalrpop-util", default-features = %s%s }
%s
[workspace]
[lints.rust]
unexpected_cfgs = { level = "allow" }
[profile.dev]
debug = false
""" % (name, REPO, "true" if default_features else "false", feats, extra_deps)
        with open(os.path.join(self.dir, "Cargo.toml"), "w") as f:
            f.write(toml)
        shutil.copy(os.path.join(REPO, "Cargo.lock"), os.path.join(self.dir, "Cargo.lock"))
        self.files = {}

    def write(self, rel, text):
        p = os.path.join(self.dir, "src", rel)
        os.makedirs(os.path.dirname(p), exist_ok=True)
        with open(p, "w") as f:
            f.write(text)

    def check_compiles(self):
        """cargo kani --only-codegen once: catches harness-generation errors early."""
        t0 = time.time()
        r = subprocess.run(["cargo", "kani", "--only-codegen", "--target-dir", os.path.join(self.dir, "target-w0")],
                           cwd=self.dir, env=env_with(), stdout=subprocess.PIPE, stderr=subprocess.STDOUT, text=True)
        if r.returncode != 0:
            sys.stdout.write(r.stdout[-6000:])
            raise Inconclusive("harness crate %s does not compile under kani" % self.name)
        return time.time() - t0


def _limit_mem(gb):
    def f():
        lim = int(gb * (1 << 30))
        resource.setrlimit(resource.RLIMIT_AS, (lim, lim))
        os.setsid()
    return f


_FAILED_RE = re.compile(r"Failed Checks: (.*)")
_SUMMARY_RE = re.compile(r"\*\* (\d+) of (\d+) failed")
_COVER_RE = re.compile(r"\*\* (\d+) of (\d+) cover properties satisfied")


def parse_kani_log(harness, text, wall, rc, timed_out):
    res = KaniResult(harness, "ERROR", wall, log=text)
    m = _SUMMARY_RE.search(text)
    if m:
        res.checks_total = int(m.group(2))
    m = _COVER_RE.search(text)
    if m:
        res.covers_sat, res.covers_total = int(m.group(1)), int(m.group(2))
    for m in re.finditer(r"Check \d+: (\S+)\n\s+- Status: (\w+)\n\s+- Description: \"(.*)\"", text):
        name, status, desc = m.groups()
        if ".cover." in name and status != "SATISFIED":
            res.unsat_covers.append(desc)
    res.failed_checks = [m.group(1).strip() for m in _FAILED_RE.finditer(text)]
    m = re.search(r"Generated (\d+) VCC\(s\), (\d+) remaining", text)
    if m:
        res.vccs = int(m.group(1))
    m = re.search(r"size of program expression: (\d+) steps", text)
    if m:
        res.steps = int(m.group(1))
    if timed_out:
        res.status = "TIMEOUT"
    elif "VERIFICATION:- SUCCESSFUL" in text:
        res.status = "SUCCESSFUL"
    elif "VERIFICATION:- FAILED" in text:
        if re.search(r"out of memory|std::bad_alloc|Status: ERROR|CBMC failed|memory exhausted", text):
            res.status = "OOM"
        else:
            res.status = "FAILED"
    elif re.search(r"out of memory|std::bad_alloc|memory exhausted|Killed", text):
        res.status = "OOM"
    else:
        res.status = "ERROR"
    return res


def run_kani(crate: KaniCrate, harnesses, timeout_s=600, mem_gb=12, jobs=None, extra_args=None,
             playback=False):
    """Run each harness (exact name) in its own `cargo kani` process, `jobs` at a time, each worker
    with its own target dir.  Returns {harness: KaniResult}."""
    jobs = jobs or max(1, min(NCPU - 1, len(harnesses)))
    results = {}
    import queue
    import threading
    q = queue.Queue()
    for h in harnesses:
        q.put(h)
    lock = threading.Lock()
    logdir = os.path.join(crate.dir, "logs")
    os.makedirs(logdir, exist_ok=True)

    def worker(wid):
        tdir = os.path.join(crate.dir, "target-w%d" % wid)
        while True:
            try:
                h = q.get_nowait()
            except queue.Empty:
                return
            cmd = ["cargo", "kani", "--harness", h, "--exact", "--target-dir", tdir]
            if playback:
                cmd += ["-Z", "concrete-playback", "--concrete-playback=print"]
            if extra_args:
                cmd += extra_args
            t0 = time.time()
            timed_out = False
            p = subprocess.Popen(cmd, cwd=crate.dir, env=env_with(), stdout=subprocess.PIPE,
                                 stderr=subprocess.STDOUT, text=True, preexec_fn=_limit_mem(mem_gb))
            try:
                out, _ = p.communicate(timeout=timeout_s)
            except subprocess.TimeoutExpired:
                timed_out = True
                try:
                    os.killpg(p.pid, 9)
                except Exception:
                    p.kill()
                out, _ = p.communicate()
            wall = time.time() - t0
            res = parse_kani_log(h, out, wall, p.returncode, timed_out)
            with open(os.path.join(logdir, h.replace("::", "__") + (".pb" if playback else "") + ".log"), "w") as f:
                f.write(out)
            with lock:
                results[h] = res

    threads = [threading.Thread(target=worker, args=(i,)) for i in range(jobs)]
    for t in threads:
        t.start()
    for t in threads:
        t.join()
    return results


def parse_playback_values(text):
    """Concrete playback prints one `vec![..bytes..]` per kani::any() call, in call order.
    Returns list[bytes] of the first generated test."""
    m = None
    for tm in re.finditer(r"((?:\s*///[^\n]*\n)+)\s*#\[test\]\s*fn kani_concrete_playback_\w+\(\) \{\s*let concrete_vals: Vec<Vec<u8>> = vec!\[(.*?)\n\s*\];", text, re.S):
        if "Check for `cover`" not in tm.group(1):
            m = tm
            break
    if not m:
        return None
    class _M:
        def __init__(self, g): self.g = g
        def group(self, i): return self.g
    m = _M(m.group(2))
    vals = []
    for vm in re.finditer(r"vec!\[([0-9,\s]*)\]", m.group(1)):
        body = vm.group(1).strip()
        vals.append(bytes(int(x) for x in body.split(",") if x.strip()) if body else b"")
    return vals


# --------------------------------------------------------------------------------------------
# native builds (replay, validation of models against the implementation)
# --------------------------------------------------------------------------------------------

class NativeCrate:
    def __init__(self, name, util_features=None, default_features=False, extra_deps=""):
        self.name = name
        self.dir = os.path.join(workdir(), name)
        os.makedirs(os.path.join(self.dir, "src"), exist_ok=True)
        feats = ""
        if util_features:
            feats = ", features = [%s]" % ", ".join('"%s"' % f for f in util_features)
        toml = """[package]
name = "%s"
version = "0.0.0"
edition = "2021"
[dependencies]
lalrpop-util = { path = "%s/lalrpop-util", default-features = %s%s }
%s
[workspace]
[profile.dev]
debug = false
""" % (name, REPO, "true" if default_features else "false", feats, extra_deps)
        with open(os.path.join(self.dir, "Cargo.toml"), "w") as f:
            f.write(toml)
        shutil.copy(os.path.join(REPO, "Cargo.lock"), os.path.join(self.dir, "Cargo.lock"))

    def write(self, rel, text):
        p = os.path.join(self.dir, "src", rel)
        os.makedirs(os.path.dirname(p), exist_ok=True)
        with open(p, "w") as f:
            f.write(text)

    def build(self, release=False):
        cmd = ["cargo", "build", "--offline", "-q"] + (["--release"] if release else [])
        r = subprocess.run(cmd, cwd=self.dir, env=env_with({"RUSTFLAGS": "-Awarnings"}),
                           stdout=subprocess.PIPE, stderr=subprocess.STDOUT, text=True)
        if r.returncode != 0:
            return None, r.stdout
        return os.path.join(self.dir, "target", "release" if release else "debug", self.name), r.stdout

    def run(self, args=None, stdin=None, release=False, timeout=120):
        exe, out = self.build(release)
        if exe is None:
            raise Inconclusive("native crate %s does not build:\n%s" % (self.name, out[-3000:]))
        r = subprocess.run([exe] + (args or []), input=stdin, stdout=subprocess.PIPE,
                           stderr=subprocess.STDOUT, text=True, timeout=timeout)
        return r.returncode, r.stdout


# --------------------------------------------------------------------------------------------
# evidence / findings
# --------------------------------------------------------------------------------------------

def seed():
    try:
        return int(os.environ.get("VERIF_SEED", "0"))
    except ValueError:
        return 0


def evidence_path(pid):
    # VERIF_EVIDENCE_DIR: used only by tools/try_seed.sh so that a run against a seeded change does not overwrite the
    # evidence of the unchanged tree
    evdir = os.environ.get("VERIF_EVIDENCE_DIR", os.path.join(VERIF, "evidence"))
    os.makedirs(evdir, exist_ok=True)
    return os.path.join(evdir, pid + ".json")


def write_evidence(pid, tier, level, coverage, assumptions, wall_s, violations=0):
    ev = {
        "property_id": pid,
        "tier": tier,
        "seed": seed(),
        "level": level,
        "coverage": coverage,
        "assumptions": assumptions,
        "wall_s": round(wall_s, 2),
        "violations": violations,
    }
    p = evidence_path(pid)
    with open(p, "w") as f:
        json.dump(ev, f, indent=1, sort_keys=False)
        f.write("\n")
    return p


def load_known_findings():
    """known_findings.txt lines:  `finding: property=<id> key=<key> <free text>`  or
    `fixed: property=<id> <commit> <free text>` (the latter suppress nothing)."""
    out = {}
    p = os.path.join(VERIF, "known_findings.txt")
    if not os.path.exists(p):
        return out
    for line in open(p):
        line = line.strip()
        if not line.startswith("finding:"):
            continue
        m = re.match(r"finding:\s+property=(\S+)\s+key=(\S+)\s*(.*)", line)
        if m:
            out.setdefault(m.group(1), {})[m.group(2)] = m.group(3)
    return out


def save_replay(pid, case, files):
    """Write a replay case under /verif/replay/<pid>/<case>/ ; returns its path."""
    d = os.path.join(VERIF, "replay", pid, case)
    os.makedirs(d, exist_ok=True)
    for name, text in files.items():
        with open(os.path.join(d, name), "w") as f:
            f.write(text)
    return d
