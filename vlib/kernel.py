"""Kani harness crates over library kernels (no generated code involved): run, concrete playback as
native replay, evidence."""
from __future__ import annotations
import os
import re
import shutil
import subprocess
import time

from . import common as K


def playback_native(crate: K.KaniCrate, harness, timeout_s):
    """Ask Kani to write the counterexample as a #[test] into the source, then run that test
    natively (dev profile).  Returns (reproduced: bool|None, log)."""
    tdir = os.path.join(crate.dir, "target-pb")
    cmd = ["cargo", "kani", "--harness", harness, "--exact", "--target-dir", tdir,
           "-Z", "concrete-playback", "--concrete-playback=inplace"]
    try:
        r = subprocess.run(cmd, cwd=crate.dir, env=K.env_with(), stdout=subprocess.PIPE, stderr=subprocess.STDOUT,
                           text=True, timeout=timeout_s, preexec_fn=K._limit_mem(12))
    except subprocess.TimeoutExpired:
        return None, "playback generation timed out"
    log = r.stdout
    src = ""
    for fn in sorted(os.listdir(os.path.join(crate.dir, "src"))):
        if fn.endswith(".rs"):
            src += open(os.path.join(crate.dir, "src", fn)).read()
    # Kani writes one test per failed check AND one per satisfied cover: keep the former only
    m = []
    for tm in re.finditer(r"((?:\s*///[^\n]*\n)+)\s*#\[test\]\s*fn (kani_concrete_playback_\w+)", src):
        if "Check for `cover`" not in tm.group(1):
            m.append(tm.group(2))
    if not m:
        return None, log[-3000:]
    r2 = subprocess.run(["cargo", "kani", "playback", "-Z", "concrete-playback", "--", m[-1]],
                        cwd=crate.dir, env=K.env_with(), stdout=subprocess.PIPE, stderr=subprocess.STDOUT, text=True,
                        timeout=900)
    log2 = r2.stdout
    failed = re.search(r"test result: FAILED|panicked at", log2) is not None
    passed = re.search(r"test result: ok\. 1 passed", log2) is not None
    if failed:
        return True, log2[-3000:]
    if passed:
        return False, log2[-3000:]
    return None, log2[-3000:]


def run_kernel_property(pid, tier, crate: K.KaniCrate, harnesses, *, timeout_s, functions, assumptions, bounds,
                        describe=None, mem_gb=12, stub=False, key_of=None, kani_jobs=None, extra_cov=None,
                        required_covers=None, relevant=None):
    """harnesses: list of exact harness names.  describe: {harness: text}."""
    t0 = time.time()
    known = K.load_known_findings().get(pid, {})
    tc = crate.check_compiles()
    K.log("[kani] %s compiled in %.1fs, %d harnesses" % (crate.name, tc, len(harnesses)))
    extra = ["-Z", "stubbing"] if stub else None
    res = K.run_kani(crate, harnesses, timeout_s=timeout_s, mem_gb=mem_gb, extra_args=extra, jobs=kani_jobs)
    discharged, steps, vccs, solver_s = 0, 0, 0, 0.0
    inconclusive, samples, violations, known_hit = [], [], [], []
    for h in harnesses:
        r = res[h]
        steps += r.steps
        vccs += r.vccs
        solver_s += r.wall_s
        rec = {"harness": h, "what": (describe or {}).get(h, ""), "status": r.status, "wall_s": round(r.wall_s, 1),
               "checks": r.checks_total, "covers": "%d/%d" % (r.covers_sat, r.covers_total)}
        samples.append(rec)
        if r.status == "SUCCESSFUL":
            missing = [c for c in r.unsat_covers if (required_covers is None or any(c.startswith(p) for p in required_covers))]
            if missing:
                inconclusive.append("%s: vacuity witness unsatisfied: %s" % (h, missing))
                rec["status"] = "VACUOUS"
            else:
                discharged += 1
        elif r.status == "FAILED" and relevant is not None and not [c for c in r.failed_checks if relevant(c)]:
            # only assertions that belong to another property failed; this property's own assertions hold
            discharged += 1
            rec["status"] = "SUCCESSFUL (checks of other properties failed: %s)" % r.failed_checks[:2]
        elif r.status == "FAILED":
            if relevant is not None:
                r.failed_checks = [c for c in r.failed_checks if relevant(c)]
            key = key_of(h, r) if key_of else "kani:" + h
            if key in known:
                # same production, same failed assertions as a recorded finding (which was replayed natively when it was recorded)
                known_hit.append((key, "%s: %s" % (h, r.failed_checks[:3])))
                rec["status"] = "FAILED (known finding)"
                continue
            rep, plog = playback_native(crate, h, timeout_s * 2)
            if rep is True:
                violations.append((key, "%s: %s – counterexample replayed natively against the real crate (test fails)" %
                                   (h, r.failed_checks[:3]), h, plog))
            elif rep is False:
                inconclusive.append("%s FAILED (%s) but the concrete playback test passes natively: suspected harness/stub fault" %
                                    (h, r.failed_checks[:3]))
            else:
                inconclusive.append("%s FAILED (%s); concrete playback unavailable" % (h, r.failed_checks[:3]))
        else:
            inconclusive.append("%s: %s after %.0fs" % (h, r.status, r.wall_s))
    nviol = 0
    for key, text, h, plog in violations:
        if key in known:
            known_hit.append((key, text))
            continue
        nviol += 1
        case = re.sub(r"[^A-Za-z0-9_.-]", "_", key)[:100]
        d = K.save_replay(pid, case, {"playback.log": plog, "harness.txt": h + "\n",
                                      "README": "The crate source with the generated #[test] is lib.rs; run `cargo kani playback -Z concrete-playback` in a crate "
                                                "with a path dependency on /repo/lalrpop-util (see ./check %s --replay).\n" % pid})
        shutil.copytree(os.path.join(crate.dir, "src"), os.path.join(d, "src"), dirs_exist_ok=True)
        shutil.copy(os.path.join(crate.dir, "Cargo.toml"), os.path.join(d, "Cargo.toml"))
        print("VIOLATION property=%s replay=%s" % (pid, d))
        print("  " + text)
    for key, text in known_hit:
        print("KNOWN-FINDING: property=%s %s" % (pid, text))
    wall = time.time() - t0
    cov = {
        "states": max(steps, 1), "transitions": max(vccs, 1),
        "traces_validated_against_impl": 0,
        "samples": samples,
        "obligations": len(harnesses), "discharged": discharged,
        "functions_encoded": functions, "bounds": bounds,
        "solver": "CBMC 6.11 / CaDiCaL via Kani 0.68", "solver_wall_s_sum": round(solver_s, 1),
        "states_meaning": "sum over harnesses of CBMC program-expression steps; transitions = generated VCCs",
        "inconclusive": inconclusive, "known_findings_hit": [k for k, _ in known_hit],
    }
    if extra_cov:
        cov.update(extra_cov)
    K.write_evidence(pid, tier, "model_checking", cov, assumptions, wall, violations=nviol)
    K.log("[%s] %d/%d harnesses discharged, %d violation(s), %d inconclusive, %.0fs" % (pid, discharged, len(harnesses), nviol, len(inconclusive), wall))
    if nviol:
        return 1
    if inconclusive:
        for x in inconclusive:
            print("INCONCLUSIVE: " + str(x))
        return 2
    return 0


def replay_kernel(pid, path):
    """Rebuild the stored crate (with the generated #[test]) against the current /repo and run it."""
    cj = os.path.join(path, "case.json")
    if os.path.exists(cj):
        import json
        if json.load(open(cj)).get("engine") == "symdrive":
            from . import e3
            return e3.replay_case(path)
    d = os.path.join(K.workdir(), "replay_crate")
    if os.path.isdir(os.path.join(path, "src")):
        shutil.copytree(os.path.join(path, "src"), os.path.join(d, "src"), dirs_exist_ok=True)
    else:
        os.makedirs(os.path.join(d, "src"), exist_ok=True)
        shutil.copy(os.path.join(path, "lib.rs"), os.path.join(d, "src", "lib.rs"))
    shutil.copy(os.path.join(path, "Cargo.toml"), os.path.join(d, "Cargo.toml"))
    shutil.copy(os.path.join(K.REPO, "Cargo.lock"), os.path.join(d, "Cargo.lock"))
    r = subprocess.run(["cargo", "kani", "playback", "-Z", "concrete-playback"], cwd=d, env=K.env_with(),
                       stdout=subprocess.PIPE, stderr=subprocess.STDOUT, text=True)
    print(r.stdout[-3000:])
    if re.search(r"test result: FAILED|panicked at", r.stdout):
        print("replay: the counterexample still fails on the current tree")
        return 1
    print("replay: the counterexample passes on the current tree")
    return 0
