"""Engine E4 `lexsym`: z3's sequence/regex theory over what the real generator emitted for the
built-in lexer.  Everything regex-semantic comes from regex-syntax's HIR (via engines/hirdump, the
same parser configuration the runtime uses); LALRPOP's own contribution – escaping, re-rendering,
Debug-quoting, ordering by precedence, the skip flags, the Token(i,_) mapping, the build-time
ambiguity verdict – is what gets checked."""
from __future__ import annotations
import json
import os
import re
import shutil
import subprocess
import time

import z3

from . import common as K



class Unsupported(Exception):
    pass


# --------------------------------------------------------------------------------------------
# hirdump process
# --------------------------------------------------------------------------------------------

_hd = None


def build_hirdump():
    return K.build_helper("hirdump", "(regex-syntax HIR + real Matcher runner) ")


class HirDump:
    def __init__(self):
        exe = build_hirdump()
        self.p = subprocess.Popen([exe], stdin=subprocess.PIPE, stdout=subprocess.PIPE, text=True, bufsize=1)

    def _ask(self, line):
        self.p.stdin.write(line + "\n")
        self.p.stdin.flush()
        out = self.p.stdout.readline()
        if not out:
            raise K.Inconclusive("hirdump died on %r" % line[:200])
        return json.loads(out)

    def hir(self, pattern):
        return self._ask("H " + json.dumps(pattern))

    def escape(self, s):
        return self._ask("E " + json.dumps(s))

    def match(self, pats, text):
        """pats: list of (pattern, skip) -> {"tokens": [[s, idx, e]...], "status": ...}"""
        return self._ask("M " + json.dumps([[p, bool(s)] for p, s in pats]) + " " + json.dumps(text))


def hd():
    global _hd
    if _hd is None:
        _hd = HirDump()
    return _hd


# --------------------------------------------------------------------------------------------
# reading the generated lexer
# --------------------------------------------------------------------------------------------

def rust_unescape(body):
    """Inverse of Rust's `{:?}` on str (what the generator uses to emit patterns and names)."""
    out = []
    i = 0
    while i < len(body):
        c = body[i]
        if c != "\\":
            out.append(c)
            i += 1
            continue
        e = body[i + 1]
        i += 2
        if e == "n":
            out.append("\n")
        elif e == "t":
            out.append("\t")
        elif e == "r":
            out.append("\r")
        elif e == "0":
            out.append("\0")
        elif e in "\\\"'":
            out.append(e)
        elif e == "u":
            j = body.index("}", i)
            out.append(chr(int(body[i + 1:j], 16)))
            i = j + 1
        elif e == "x":
            out.append(chr(int(body[i:i + 2], 16)))
            i += 2
        else:
            raise ValueError("unknown escape \\%s" % e)
    return "".join(out)


def extract_lexer(rs):
    """-> dict(strs=[(pattern, skip)], tok2term={pattern index: terminal index}, terminals=[display names])"""
    m = re.search(r"let (_+)strs: &\[\(&str, bool\)\] = &\[\n(.*?)\n\s*\];", rs, re.S)
    if not m:
        raise K.Inconclusive("no __strs table in generated output (built-in lexer expected)")
    strs = []
    for line in m.group(2).splitlines():
        line = line.strip()
        if not line:
            continue
        lm = re.match(r'^\((r?)"(.*)", (true|false)\),$', line)
        if not lm:
            raise K.Inconclusive("cannot read __strs entry %r" % line)
        raw, body, skip = lm.groups()
        strs.append((body if raw else rust_unescape(body), skip == "true"))
    tm = re.search(r"fn _+token_to_integer<.*?\{\s*#\[warn\(unused_variables\)\]\s*match _+token \{(.*?)_ => None,", rs, re.S)
    tok2term = {}
    for a, b in re.findall(r"Token\((\d+), _\) if true => Some\((\d+)\),", tm.group(1)):
        tok2term[int(a)] = int(b)
    nm = re.search(r"const _+TERMINAL: &\[&str\] = &\[\n(.*?)\n\s*\];", rs, re.S)
    terminals = []
    for line in nm.group(1).splitlines():
        lm = re.match(r'^\s*r###"(.*)"###,$', line)
        if lm:
            terminals.append(lm.group(1))
    return {"strs": strs, "tok2term": tok2term, "terminals": terminals}


def terminal_key(display):
    """Display name in __TERMINAL -> ("lit", text) | ("re", text) | ("id", name)."""
    if display.startswith('r#"') and display.endswith('"#'):
        return ("re", rust_unescape(display[3:-2]))
    if display.startswith('"') and display.endswith('"'):
        return ("lit", rust_unescape(display[1:-1]))
    return ("id", display)


# --------------------------------------------------------------------------------------------
# alphabet compression (minterms of all character classes in play) and HIR -> z3
# --------------------------------------------------------------------------------------------

import bisect

SURR = [(0xD800, 0xDFFF)]
TOP = 0x110000


def hir_classes(h, out, feats):
    """Collect every character class (list of inclusive code-point ranges) occurring in HIR `h`."""
    k = h["k"]
    if k == "lit":
        try:
            s = bytes(h["bytes"]).decode("utf-8")
        except UnicodeDecodeError:
            feats.add("bytes")
            raise Unsupported("non-UTF-8 literal")
        for c in s:
            out.append(((ord(c), ord(c)),))
    elif k == "ucls":
        out.append(tuple((lo, hi) for lo, hi in h["r"]))
    elif k == "bcls":
        for lo, hi in h["r"]:
            if hi > 0x7F:
                feats.add("bytes")
                raise Unsupported("byte class beyond ASCII")
        out.append(tuple((lo, hi) for lo, hi in h["r"]))
    elif k == "look":
        feats.add("look")
        raise Unsupported("look-around %s" % h["what"])
    elif k == "rep":
        if not h["greedy"]:
            feats.add("nongreedy")
        hir_classes(h["sub"], out, feats)
    elif k == "cap":
        if h["name"] is not None:
            feats.add("named")
        hir_classes(h["sub"], out, feats)
    elif k in ("cat", "alt"):
        for x in h["subs"]:
            hir_classes(x, out, feats)
    elif k == "empty":
        pass
    else:
        raise Unsupported(k)


class Alphabet:
    """Partition of the code-point space into blocks of points that no class in play tells apart.
    Each block gets one representative z3 character, so that languages over code points are equal
    (disjoint, included, ...) iff the compressed languages over representatives are; witnesses are
    decoded by picking a real code point of the block."""

    def __init__(self, hirs, extra_strings=()):
        self.feats = set()
        classes = []
        for h in hirs:
            hir_classes(h, classes, self.feats)
        for s in extra_strings:
            for c in s:
                classes.append(((ord(c), ord(c)),))
        classes = list(dict.fromkeys(classes))
        self.classes = classes
        allc = classes + [tuple(SURR)]
        bounds = {0, TOP}
        for c in allc:
            for lo, hi in c:
                bounds.add(lo)
                bounds.add(hi + 1)
        bounds = sorted(bounds)
        starts = [[lo for lo, hi in c] for c in allc]
        sig_of = {}
        self.blocks = []          # block index -> list of (lo, hi)
        self.block_sig = []
        for i in range(len(bounds) - 1):
            a, b = bounds[i], bounds[i + 1] - 1
            sig = []
            for ci, c in enumerate(allc):
                j = bisect.bisect_right(starts[ci], a) - 1
                if j >= 0 and c[j][0] <= a <= c[j][1]:
                    sig.append(ci)
            sig = tuple(sig)
            if sig not in sig_of:
                sig_of[sig] = len(self.blocks)
                self.blocks.append([])
                self.block_sig.append(sig)
            self.blocks[sig_of[sig]].append((a, b))
        surr_id = len(classes)
        self.valid_blocks = [i for i, sg in enumerate(self.block_sig) if surr_id not in sg]
        self.class_blocks = {}
        for ci, c in enumerate(classes):
            self.class_blocks[c] = [i for i, sg in enumerate(self.block_sig) if ci in sg]

    def rep(self, block):
        return chr(0x100 + block)

    def re_of_blocks(self, blocks):
        blocks = sorted(blocks)
        parts = []
        i = 0
        while i < len(blocks):
            j = i
            while j + 1 < len(blocks) and blocks[j + 1] == blocks[j] + 1:
                j += 1
            parts.append(_range(0x100 + blocks[i], 0x100 + blocks[j]))
            i = j + 1
        return _union(parts)

    def cls(self, ranges):
        return self.re_of_blocks(self.class_blocks[tuple(tuple(r) for r in ranges)])

    def char(self, c):
        return self.cls(((ord(c), ord(c)),))

    def valid_char(self):
        return self.re_of_blocks(self.valid_blocks)

    def string(self, s):
        return _concat(self.char(c) for c in s)

    def encode(self, s):
        """real string -> compressed string (every char of s must be a class of this alphabet)."""
        return "".join(self.rep(self.class_blocks[((ord(c), ord(c)),)][0]) for c in s)

    def decode(self, reps):
        """compressed witness -> a real string (a code point of each block, preferring printable ASCII)."""
        out = []
        for ch in reps:
            b = ord(ch) - 0x100
            if b < 0 or b >= len(self.blocks):
                out.append("?")
                continue
            pick = self.blocks[b][0][0]
            done = False
            for pref in (0x61, 0x41, 0x30, 0x21):
                for (x, y) in self.blocks[b]:
                    if x <= pref <= y:
                        pick = pref
                        done = True
                        break
                if done:
                    break
            out.append(chr(pick))
        return "".join(out)


def _ch(cp):
    return z3.StringVal(chr(cp))


def _range(lo, hi):
    if lo == hi:
        return z3.Re(_ch(lo))
    return z3.Range(_ch(lo), _ch(hi))


def _union(xs):
    xs = list(xs)
    if not xs:
        return z3.Empty(z3.ReSort(z3.StringSort()))
    if len(xs) == 1:
        return xs[0]
    return z3.Union(*xs)


def _concat(xs):
    xs = list(xs)
    if not xs:
        return z3.Re(z3.StringVal(""))
    if len(xs) == 1:
        return xs[0]
    return z3.Concat(*xs)


def hir_to_z3(h, al):
    k = h["k"]
    if k == "empty":
        return z3.Re(z3.StringVal(""))
    if k == "lit":
        return al.string(bytes(h["bytes"]).decode("utf-8"))
    if k in ("ucls", "bcls"):
        return al.cls(h["r"])
    if k == "rep":
        sub = hir_to_z3(h["sub"], al)
        mn, mx = h["min"], h["max"]
        if mx is None:
            if mn == 0:
                return z3.Star(sub)
            if mn == 1:
                return z3.Plus(sub)
            return z3.Concat(z3.Loop(sub, mn, mn), z3.Star(sub))
        if mx == 0:
            return z3.Re(z3.StringVal(""))
        if mn == 0 and mx == 1:
            return z3.Option(sub)
        return z3.Loop(sub, mn, mx)
    if k == "cap":
        return hir_to_z3(h["sub"], al)
    if k == "cat":
        return _concat(hir_to_z3(x, al) for x in h["subs"])
    if k == "alt":
        return _union(hir_to_z3(x, al) for x in h["subs"])
    raise Unsupported(k)


def parse(pattern):
    h = hd().hir(pattern)
    if "error" in h:
        raise Unsupported("regex-syntax rejects %r: %s" % (pattern, h["error"]))
    return h


def hir_features(h):
    f = set()
    try:
        hir_classes(h, [], f)
    except Unsupported:
        pass
    return f


class Solver:
    """One z3 solver with a timeout; results other than sat/unsat are inconclusive."""

    def __init__(self, timeout_ms=60000):
        self.s = z3.Solver()
        self.s.set("timeout", timeout_ms)
        self.queries = 0
        self.time = 0.0

    def check(self, *fs):
        self.s.push()
        for f_ in fs:
            self.s.add(f_)
        t0 = time.time()
        r = self.s.check()
        self.time += time.time() - t0
        self.queries += 1
        model = self.s.model() if r == z3.sat else None
        self.s.pop()
        return r, model


def member(text, hir):
    """Concrete membership of a real string in the language of `hir` (z3 simplification)."""
    al2 = Alphabet([hir], [text])
    rx = hir_to_z3(hir, al2)
    v = z3.simplify(z3.InRe(z3.StringVal(al2.encode(text)), rx))
    if z3.is_true(v):
        return True
    if z3.is_false(v):
        return False
    sv = z3.Solver()
    sv.set("timeout", 20000)
    sv.add(v)
    r = sv.check()
    if r == z3.sat:
        return True
    if r == z3.unsat:
        return False
    raise K.Inconclusive("z3 cannot decide concrete membership of %r" % text)


def model_string(model, var):
    v = model.eval(var, model_completion=True)
    return v.as_string() if hasattr(v, "as_string") else str(v)


def z3_unescape(s):
    """z3's as_string() escapes non-printable / non-ASCII as \\u{..}."""
    return re.sub(r"\\u\{([0-9a-fA-F]+)\}", lambda m: chr(int(m.group(1), 16)), s)
