"""Native (rustc, not Kani) execution of the real generated parsers through their public API.
Used for (a) replaying solver counterexamples before anything is reported and (b) validating the
E1 model (`lr_run`) against the real driver on concrete inputs."""
from __future__ import annotations
import os
import re
from . import common as K
from . import e1
from corpus import cfg as C
from corpus import gram as G


MAIN = r'''
#![allow(unused, non_snake_case, non_camel_case_types)]
extern crate alloc;
use std::io::BufRead;
use lalrpop_util::ParseError;

fn fmt_err<T: std::fmt::Debug, E: std::fmt::Debug>(e: ParseError<usize, T, E>, kind_of: &dyn Fn(&T) -> u8) -> String {
    match e {
        ParseError::InvalidToken { location } => format!("ERR InvalidToken loc={}", location),
        ParseError::UnrecognizedEof { location, expected } => format!("ERR UnrecognizedEof loc={} expected={}", location, expected.join("|")),
        ParseError::UnrecognizedToken { token, expected } => format!("ERR UnrecognizedToken span={},{} kind={} expected={}", token.0, token.2, kind_of(&token.1), expected.join("|")),
        ParseError::ExtraToken { token } => format!("ERR ExtraToken span={},{} kind={}", token.0, token.2, kind_of(&token.1)),
        ParseError::User { error } => format!("ERR User {:?}", error),
    }
}

@MODS@

fn main() {
    let stdin = std::io::stdin();
    for line in stdin.lock().lines() {
        let line = line.unwrap();
        let mut it = line.split_whitespace();
        let m = match it.next() { Some(m) => m.to_string(), None => continue };
        let start = it.next().unwrap().to_string();
        let kinds: Vec<u8> = it.map(|x| x.parse().unwrap()).collect();
        let r = std::panic::catch_unwind(|| dispatch(&m, &start, &kinds));
        match r {
            Ok(s) => println!("{}", s),
            Err(_) => println!("PANIC"),
        }
    }
}

fn dispatch(m: &str, start: &str, kinds: &[u8]) -> String {
    match (m, start) {
@ARMS@
        _ => "NOSUCH".to_string(),
    }
}
'''


def tok_module_native(g: G.Grammar):
    txt = e1.tok_module(g)
    # add kind_of
    lines = ["    pub fn kind_of(t: &Tok) -> u8 {", "        match t {"]
    for i, t in enumerate(g.terms):
        lines.append("            Tok::%s%s => %d," % (t.variant, "(..)" if t.payload else "", i))
    lines += ["        }", "    }", "}"]
    assert txt.rstrip().endswith("}")
    return txt.rstrip()[:-1] + "\n".join(lines) + "\n"


def loc_of(i):
    return 10 * i + 3, 10 * i + 7


class NativeParsers:
    def __init__(self, jobs, name="native_e1"):
        self.crate = K.NativeCrate(name)
        mods, arms = [], []
        seen_mod, seen_tok = set(), set()
        for j in jobs:
            if j.g.name not in seen_tok:
                seen_tok.add(j.g.name)
                mods.append(tok_module_native(j.g))
            if j.modname not in seen_mod:
                seen_mod.add(j.modname)
                self.crate.write(j.modname + ".rs", j.gen.rs)
                mods.append("pub mod %s;" % j.modname)
            arms.append('        ("%s", "%s") => { let toks: Vec<(usize, t_%s::Tok, usize)> = kinds.iter().enumerate().map(|(i, k)| (10 * i + 3, t_%s::mk(*k, *k), 10 * i + 7)).collect(); '
                        'match %s::%sParser::new().parse(toks) { Ok(_) => "OK".to_string(), Err(e) => fmt_err(e, &|t| t_%s::kind_of(t)) } }'
                        % (j.modname, j.start, j.g.name, j.g.name, j.modname, j.start, j.g.name))
        self.crate.write("main.rs", MAIN.replace("@MODS@", "\n".join(mods)).replace("@ARMS@", "\n".join(arms)))

    def run(self, queries, release=False):
        """queries: list of (modname, start, kinds list) -> list of result strings."""
        inp = "".join("%s %s %s\n" % (m, s, " ".join(str(k) for k in ks)) for (m, s, ks) in queries)
        rc, out = self.crate.run(stdin=inp, release=release, timeout=600)
        lines = [l for l in out.splitlines() if l and not l.startswith("thread '") and not l.startswith("note:")
                 and not l.startswith("stack backtrace") and not re.match(r"^\s+\d+:|^\s+at ", l)]
        # panics print a message to stderr (merged); keep only protocol lines
        proto = [l for l in lines if l.startswith(("OK", "ERR", "PANIC", "NOSUCH"))]
        if len(proto) != len(queries):
            raise K.Inconclusive("native run produced %d results for %d queries:\n%s" % (len(proto), len(queries), out[-2000:]))
        return proto


class SpecOracle:
    """Python-side expectations for one (grammar, feats, start) from the specification CFG."""

    def __init__(self, spec: e1.Spec, n):
        self.spec = spec
        self.n = n
        self.lang = C.language(spec.cfg, spec.start, n + 1) if spec.lang_nonempty else set()
        # viable prefixes up to length n+1 need sentences longer than n+1: use the prefix grammar
        if spec.lang_nonempty:
            pre = C.prefix_cfg(spec.cfg, [spec.start])
            self.viable = C.language(pre, spec.start + "^", n + 1)
        else:
            self.viable = set()
        self.kinds = spec.kinds

    def names(self, kinds):
        return tuple(self.kinds[k] for k in kinds)

    def expect(self, kinds):
        """-> dict(kind='OK'|'TOKEN'|'EOF', idx, valid_next=set of terminal names)"""
        w = self.names(kinds)
        if w in self.lang:
            return {"kind": "OK"}
        for k in range(len(w)):
            if w[:k + 1] not in self.viable:
                return {"kind": "TOKEN", "idx": k, "valid_next": self._next(w[:k])}
        return {"kind": "EOF", "idx": len(w), "valid_next": self._next(w)}

    def _next(self, prefix):
        return {t for t in self.spec.cfg.terms if t != G.ERROR_TERM and prefix + (t,) in self.viable}

    def check(self, kinds, observed, canonical):
        """Compare a native result line with the specification.  Returns list of complaints."""
        return check_expect(self.expect(kinds), kinds, observed, canonical)


def check_expect(exp, kinds, observed, canonical):
    if True:
        bad = []
        if observed == "PANIC":
            return ["parser panicked"]
        if exp["kind"] == "OK":
            if observed != "OK":
                bad.append("sentence rejected: %s" % observed)
            return bad
        if observed == "OK":
            return ["non-sentence accepted"]
        m = re.match(r"ERR (\w+)(.*)", observed)
        var, rest = m.group(1), m.group(2)
        listed = None
        em = re.search(r"expected=(.*)$", rest)
        if em is not None:
            listed = [x for x in em.group(1).split("|") if x]
        if exp["kind"] == "TOKEN":
            lo, hi = loc_of(exp["idx"])
            if var != "UnrecognizedToken":
                bad.append("expected UnrecognizedToken at token %d, got %s" % (exp["idx"], observed))
            else:
                sm = re.search(r"span=(\d+),(\d+) kind=(\d+)", rest)
                if (int(sm.group(1)), int(sm.group(2))) != (lo, hi) or int(sm.group(3)) != kinds[exp["idx"]]:
                    bad.append("wrong token reported: want token %d span %d,%d kind %d; got %s" % (exp["idx"], lo, hi, kinds[exp["idx"]], observed))
        else:
            want_loc = loc_of(len(kinds) - 1)[1] if kinds else 0
            if var != "UnrecognizedEof":
                bad.append("expected UnrecognizedEof, got %s" % observed)
            else:
                lm = re.search(r"loc=(\d+)", rest)
                if int(lm.group(1)) != want_loc:
                    bad.append("UnrecognizedEof location %s, want %d" % (lm.group(1), want_loc))
        if listed is not None and var in ("UnrecognizedToken", "UnrecognizedEof"):
            names = []
            for x in listed:
                mm = re.match(r'^"(.*)"$', x)
                names.append(mm.group(1) if mm else x)
            if len(set(names)) != len(names):
                bad.append("duplicate in expected list: %s" % listed)
            for nm in names:
                if nm not in exp["valid_next"]:
                    bad.append("expected list names %r which cannot continue the input" % nm)
            if canonical:
                for nm in exp["valid_next"]:
                    if nm not in names:
                        bad.append("canonical LR(1): valid continuation %r not listed" % nm)
        return bad


def deep_inputs(spec, nstates, max_words=40):
    """Pumped inputs that drive the stack deeper than the number of LR states: u[:i] x^k u[i:] for short viable prefixes u,
    every terminal x and k in {nstates+2, 2*nstates+2}, kept when still a viable prefix (python CYK over CNF(Pre(G)))."""
    from corpus import cfg as C
    if not spec.lang_nonempty:
        return []
    pre = C.prefix_cfg(spec.cfg, [spec.start])
    short = sorted(C.language(pre, spec.start + "^", 3), key=lambda w: (len(w), w))
    terms = [t for t in spec.cfg.terms if t != G.ERROR_TERM]
    kind_of = {n: i for i, n in enumerate(spec.kinds)}
    out, seen = [], set()
    for u in short:
        for i in range(len(u) + 1):
            for x in terms:
                for k in (nstates + 2, 2 * nstates + 2):
                    w = u[:i] + (x,) * k + u[i:]
                    if w in seen:
                        continue
                    seen.add(w)
                    if C.cyk(spec.cnf, spec.start + "^", w):
                        out.append([kind_of[t] for t in w])
                        if len(out) >= max_words:
                            return out
    return out


def deep_expect(spec, kinds):
    """specification verdict for a long input by python CYK (no enumeration of the language)"""
    from corpus import cfg as C
    names = tuple(spec.kinds[k] for k in kinds)
    terms = [t for t in spec.cfg.terms if t != G.ERROR_TERM]

    def viable(w):
        return True if len(w) == 0 else C.cyk(spec.cnf, spec.start + "^", w)

    def nxt(prefix):
        return {t for t in terms if viable(prefix + (t,))}
    if C.cyk(spec.cnf, spec.start, names):
        return {"kind": "OK"}
    for k in range(len(names)):
        if not viable(names[:k + 1]):
            return {"kind": "TOKEN", "idx": k, "valid_next": nxt(names[:k])}
    return {"kind": "EOF", "idx": len(names), "valid_next": nxt(names)}
