"""Whole-parse validation for the reduce engine: the real generated parser (real driver, real tables, real reduce
code, recording actions) is run natively on ALL token sequences up to a length bound, with every position of a failing
fallible action, and its action-call log and result are compared with the specification evaluated over the derivation
tree (corpus/actions.py productions, post-order).  This is validation of the composition E1 o E2 o E3 on concrete runs
(counted as traces_validated_against_impl), not the deciding step."""
from __future__ import annotations
import itertools
import re

from corpus import actions as A
from corpus import gram as G
from . import common as K
from . import e1

REC_NATIVE = r'''
#[allow(dead_code, static_mut_refs)]
pub mod rec_@G@ {
    use lalrpop_util::ParseError;
    use crate::t_@G@::Tok;
    pub static mut N: usize = 0;
    pub static mut FAIL: usize = usize::MAX;
    pub static mut LOG: Vec<(u8, Vec<u8>)> = Vec::new();
    pub fn reset(fail: usize) { unsafe { N = 0; FAIL = fail; LOG.clear(); } }
    pub fn retv(n: usize) -> u8 { ((17 * n + 3) % 251) as u8 }
    fn log(id: u8, args: &[u8]) -> usize { unsafe { let n = N; LOG.push((id, args.to_vec())); N = n + 1; n } }
    pub fn r(id: u8, args: &[u8]) -> u8 { let n = log(id, args); retv(n) }
    pub fn f(id: u8, args: &[u8]) -> Result<u8, ParseError<usize, Tok, u8>> {
        let n = log(id, args);
        unsafe { if FAIL == n { Err(ParseError::User { error: 200 + (n as u8) }) } else { Ok(retv(n)) } }
    }
    pub fn wv(v: &Vec<u8>) -> [u8; 4] { let mut w = [0u8; 4]; w[0] = v.len() as u8; let mut i = 0; while i < v.len() && i < 3 { w[1 + i] = v[i]; i += 1; } w }
    pub fn wo(o: Option<u8>) -> [u8; 2] { match o { Some(x) => [1, x], None => [0, 0] } }
    pub fn dump() -> String { unsafe { LOG.iter().map(|(id, a)| format!("{}({})", id, a.iter().map(|x| x.to_string()).collect::<Vec<_>>().join(","))).collect::<Vec<_>>().join(";") } }
}
'''

MAIN = r'''
#![allow(unused, non_snake_case, non_camel_case_types, static_mut_refs)]
extern crate alloc;
use std::io::BufRead;
use lalrpop_util::ParseError;
@MODS@
fn main() {
    let stdin = std::io::stdin();
    for line in stdin.lock().lines() {
        let line = line.unwrap();
        let mut it = line.split_whitespace();
        let g = match it.next() { Some(m) => m.to_string(), None => continue };
        let fail: usize = it.next().unwrap().parse().unwrap();
        let kinds: Vec<u8> = it.map(|x| x.parse().unwrap()).collect();
        let r = std::panic::catch_unwind(|| dispatch(&g, fail, &kinds));
        match r { Ok(s) => println!("{}", s), Err(_) => println!("PANIC") }
    }
}
fn dispatch(g: &str, fail: usize, kinds: &[u8]) -> String {
    match g {
@ARMS@
        _ => "NOSUCH".to_string(),
    }
}
'''


def payload(i):
    return 40 + i


def loc(i):
    return 10 * i + 3, 10 * i + 7


class Tree:
    def __init__(self, key, prod, children, i, j):
        self.key, self.prod, self.children, self.i, self.j = key, prod, children, i, j


def parse(specs, by_lhs, term_names, sym, toks, i, j, memo):
    """unique derivation of toks[i:j] from grammar symbol `sym` (display name) or None"""
    k = (sym, i, j)
    if k in memo:
        return memo[k]
    memo[k] = None
    if sym in term_names:
        res = ("tok", i) if (j == i + 1 and toks[i] == sym) else None
        memo[k] = res
        return res
    found = None
    for key in by_lhs.get(sym, []):
        rhs = key[1]
        for split in splits(specs, by_lhs, term_names, rhs, toks, i, j, memo):
            t = Tree(key, specs[key], split, i, j)
            if found is not None:
                raise ValueError("ambiguous specification grammar at %r" % (k,))
            found = t
    memo[k] = found
    return found


def splits(specs, by_lhs, term_names, rhs, toks, i, j, memo):
    if not rhs:
        if i == j:
            yield []
        return
    first, rest = rhs[0], rhs[1:]
    for m in range(i, j + 1):
        t = parse(specs, by_lhs, term_names, first, toks, i, m, memo)
        if t is None:
            continue
        for tail in splits(specs, by_lhs, term_names, rest, toks, m, j, memo):
            yield [(t, i, m)] + tail


class Fail(Exception):
    def __init__(self, err):
        self.err = err


class Evaluator:
    """post-order evaluation of the specification over a derivation tree; mirrors what an LR parse does"""

    def __init__(self, ntoks, fail):
        self.n = ntoks
        self.fail = fail
        self.log = []
        self.last_end = None      # end of the last symbol on the stack to the left (for empty productions)

    def node(self, t, left_end):
        """-> (value, start, end) ; left_end = end of the symbol immediately below on the stack (or None)"""
        if isinstance(t, tuple):
            i = t[1]
            s, e = loc(i)
            return payload(i), s, e
        vals = []
        le = left_end
        for (c, ci, cj) in t.children:
            v = self.node(c, le)
            vals.append(v)
            le = v[2]
        if vals:
            start, end = vals[0][1], vals[-1][2]
            empty_pos = None
        else:
            # empty production: lookahead start | end of the symbol below | default
            if t.i < self.n:
                empty_pos = loc(t.i)[0]
            elif left_end is not None:
                empty_pos = left_end
            else:
                empty_pos = 0
            start = end = empty_pos
        self.cache = {}
        value = self.ev(t.prod.root, vals, empty_pos)
        return value, start, end

    def ev(self, e, vals, empty_pos):
        k = e[0]
        if k == "leaf":
            return vals[e[1]][0]
        if k == "lstart":
            return vals[e[1]][1]
        if k == "lend":
            return vals[e[1]][2]
        if k == "empty":
            return empty_pos
        if k == "unit":
            return ()
        if k == "pairfst":
            return self.ev(e[1], vals, empty_pos)[0]
        if k == "pairsnd":
            return self.ev(e[1], vals, empty_pos)[1]
        if k == "inc":
            return (self.ev(e[1], vals, empty_pos) + 1) % 256
        if k == "tuple":
            return tuple(self.ev(x, vals, empty_pos) for x in e[1])
        if k == "vec":
            return [self.ev(x, vals, empty_pos) for x in e[1]]
        if k == "vecpush":
            return list(self.ev(e[1], vals, empty_pos)) + [self.ev(e[2], vals, empty_pos)]
        if k == "some":
            return ("some", self.ev(e[1], vals, empty_pos))
        if k == "none":
            return ("none",)
        if k == "sub":
            n = e[1]
            if id(n) in self.cache:
                return self.cache[id(n)]
            for a in getattr(n, "pre", []):
                self.ev(a, vals, empty_pos)
            args = [self.ev(a, vals, empty_pos) for a in n.args]
            if n.kind == "default":
                self.cache[id(n)] = args[0]
                return args[0]
            kinds = getattr(n, "argkinds", ["u8"] * len(args))
            words = []
            for a, kd in zip(args, kinds):
                if kd == "vec":
                    words += [len(a)] + [a[i] if i < len(a) else 0 for i in range(3)]
                elif kd == "opt":
                    words += [1, a[1]] if a[0] == "some" else [0, 0]
                else:
                    words.append(a % 256)
            callno = len(self.log)
            self.log.append((n.id, words))
            if n.kind == "fallible" and self.fail == callno:
                raise Fail(200 + callno)
            self.cache[id(n)] = (17 * callno + 3) % 251
            return self.cache[id(n)]
        raise ValueError(e)


def run(grammars, maxlen, algo="lane"):
    """-> (traces, mismatches [(grammar, tokens, fail, expected, observed)])"""
    crate = K.NativeCrate("e2native")
    mods, arms, infos = [], [], []
    for g in grammars:
        text = G.to_lalrpop(g, force_lalr=K.ALGOS[algo][0])
        gen = K.run_generator(text, g.name, env=dict(K.ALGOS[algo][1]))
        if not gen.ok:
            raise K.Inconclusive("generator rejected %s" % g.name)
        start = g.pub_nts()[0]
        crate.write("g_%s.rs" % g.name, gen.rs)
        mods.append("pub mod g_%s;" % g.name)
        mods.append(e1.tok_module(g))
        mods.append(REC_NATIVE.replace("@G@", g.name))
        arms.append('        "%s" => { rec_%s::reset(fail); let toks: Vec<(usize, t_%s::Tok, usize)> = kinds.iter().enumerate().map(|(i, k)| (10 * i + 3, t_%s::mk(*k, (40 + i) as u8), 10 * i + 7)).collect();'
                    ' let r = g_%s::%sParser::new().parse(toks); let res = match r { Ok(v) => format!("OK {:?}", v), Err(ParseError::User { error }) => format!("USER {}", error), Err(_) => "SYNTAX".to_string() };'
                    ' format!("{} | {}", res, rec_%s::dump()) }' % (g.name, g.name, g.name, g.name, g.name, start, g.name))
        infos.append((g, start, text))
    crate.write("main.rs", MAIN.replace("@MODS@", "\n".join(mods)).replace("@ARMS@", "\n".join(arms)))
    queries, expects = [], []
    for g, start, text in infos:
        specs = A.spec_productions(g)
        by_lhs = {}
        for key in specs:
            by_lhs.setdefault(key[0], []).append(key)
        term_names = {'"%s"' % t.name for t in g.terms}
        kinds = list(range(len(g.terms)))
        for l in range(0, maxlen + 1):
            for w in itertools.product(kinds, repeat=l):
                toks = ['"%s"' % g.terms[k].name for k in w]
                memo = {}
                try:
                    tree = parse(specs, by_lhs, term_names, start, toks, 0, len(toks), memo)
                except ValueError:
                    continue
                if tree is None:
                    continue          # non-sentences: C01/C04's subject
                # number of calls without failure
                ev = Evaluator(len(toks), None)
                val = ev.node(tree, None)[0]
                ncalls = len(ev.log)
                for fail in [None] + list(range(ncalls)):
                    ev = Evaluator(len(toks), fail)
                    try:
                        val = ev.node(tree, None)[0]
                        res = "OK %s" % fmt(val)
                    except Fail as f:
                        res = "USER %d" % f.err
                    logtxt = ";".join("%d(%s)" % (i, ",".join(str(x) for x in a)) for i, a in ev.log)
                    queries.append("%s %d %s" % (g.name, fail if fail is not None else 10 ** 6, " ".join(map(str, w))))
                    expects.append((g.name, [g.terms[k].name for k in w], fail, "%s | %s" % (res, logtxt)))
    rc, out = crate.run(stdin="\n".join(queries) + "\n", timeout=900)
    lines = [l for l in out.splitlines() if re.match(r"^(OK|USER|SYNTAX|PANIC|NOSUCH)", l)]
    if len(lines) != len(queries):
        raise K.Inconclusive("e2native: %d results for %d queries: %s" % (len(lines), len(queries), out[-1500:]))
    mism = []
    for (gname, toks, fail, want), got in zip(expects, lines):
        if norm(want) != norm(got):
            mism.append((gname, toks, fail, want, got))
    return len(queries), mism


def fmt(v):
    if isinstance(v, tuple) and v and v[0] in ("some", "none"):
        return "Some(%s)" % fmt(v[1]) if v[0] == "some" else "None"
    if isinstance(v, tuple):
        return "(%s)" % ", ".join(fmt(x) for x in v) if v else "()"
    if isinstance(v, list):
        return "[%s]" % ", ".join(fmt(x) for x in v)
    return str(v)


def norm(s):
    return re.sub(r"\s+", "", s)
