"""Engine E1 `tabsym`: Kani over the real generated table functions.

For one (grammar, feature set, algorithm, start symbol) the engine
  1. derives the specification CFG from the neutral description (corpus.gram.to_cfg),
  2. runs the real generator,
  3. injects `#[cfg(kani)] pub mod __verif` as a child of the generated `mod __parse__<S>` so the
     harness can call the real private `__action`, `__EOF_ACTION`, `__goto`, `__simulate_reduce`,
     `__token_to_integer`,
  4. writes harnesses whose oracle is a CYK recogniser over a CNF of (G ∪ Pre(G)) produced on the
     specification side only.
"""
from __future__ import annotations
import os
import re
import time
from dataclasses import dataclass, field

from corpus import cfg as C
from corpus import gram as G
from . import common as K


# --------------------------------------------------------------------------------------------
# generated-file surgery
# --------------------------------------------------------------------------------------------

def find_parse_mods(rs):
    """-> {start_nt: (open_index, close_index)} for each `mod __parse__X {` ... `}`."""
    out = {}
    for m in re.finditer(r"^mod ((?P<p>_+)parse(?P=p)(\w+)) \{\n", rs, re.M):
        start = m.end()
        # the module closes at the first line that is exactly "}" after `start`
        close = rs.index("\n}\n", start)
        out[m.group(3)] = (m.start(), close + 1, m.group("p"))
    return out


def state_type(mod_text, p="__"):
    m = re.search(r"fn " + p + r"action\(state: (i8|i16|i32), integer: usize\) -> (i8|i16|i32)", mod_text)
    if not m:
        raise K.Inconclusive("cannot find `fn __action` in generated module (table-driven backend expected)")
    return m.group(1)


def phantom_expr(mod_text, p="__"):
    """The generated helper fns take a trailing PhantomData argument whose type depends on the
    grammar's type parameters; copy the expression the generator itself uses."""
    m = re.search(p + r"token_to_integer\(token, (core::marker::PhantomData::<\(.*?\)>)\)", mod_text)
    if not m:
        raise K.Inconclusive("cannot find the PhantomData argument convention")
    return m.group(1)


def error_column(mod_text, p="__"):
    m = re.search(r"fn error_action\(&self, state: \w+\) -> \w+ \{\s*" + p + r"action\(state, (\d+) - 1\)", mod_text)
    return int(m.group(1)) - 1 if m else None


def uses_recovery(mod_text):
    m = re.search(r"fn uses_error_recovery\(&self\) -> bool \{\s*(true|false)", mod_text)
    return m is not None and m.group(1) == "true"


VERIF_MOD = r'''
    #[cfg(kani)]
    #[allow(dead_code, unused)]
    pub mod verif_inj {
        //! Injected by /verif (engine E1).  Everything here only *calls* the generated items of
        //! the parent module; nothing is copied from them.
        use super::*;
        pub type St = @ST@;
        pub const D: usize = @D@;
        #[derive(Clone, Copy, PartialEq, Eq)]
        pub enum Out { Accept, Reject, Extra, Bound }
        #[derive(Clone, Copy)]
        pub struct Run { pub out: Out, pub at: usize, pub sp: usize, pub stack: [St; D], pub steps: usize, pub reds_since_shift: usize }

        #[inline(never)]
        pub fn act(top: St, tok: Option<usize>) -> St {
            match tok { Some(t) => @P@action(top, t), None => @P@EOF_ACTION[top as usize] }
        }
        /// Specification of an LR automaton run, driven over the real table functions.
        pub fn lr_run(toks: &[usize], n: usize, fuel: usize) -> Run {
            let mut stack = [0 as St; D];
            let mut sp = 0usize;
            let mut pos = 0usize;
            let mut steps = 0usize;
            let mut rss = 0usize;
            while steps < fuel {
                steps += 1;
                let top = stack[sp];
                let a = act(top, if pos < n { Some(toks[pos]) } else { None });
                if a > 0 {
                    if pos >= n || sp + 1 >= D { return Run { out: Out::Bound, at: pos, sp, stack, steps, reds_since_shift: rss }; }
                    sp += 1; stack[sp] = a - 1; pos += 1; rss = 0;
                } else if a < 0 {
                    rss += 1;
                    match @P@simulate_reduce(-(a + 1), @PH@) {
                        @P@state_machine::SimulatedReduce::Accept => {
                            return Run { out: if pos == n { Out::Accept } else { Out::Extra }, at: pos, sp, stack, steps, reds_since_shift: rss };
                        }
                        @P@state_machine::SimulatedReduce::Reduce { states_to_pop, nonterminal_produced } => {
                            if states_to_pop > sp || sp - states_to_pop + 1 >= D { return Run { out: Out::Bound, at: pos, sp, stack, steps, reds_since_shift: rss }; }
                            sp -= states_to_pop;
                            let g = @P@goto(stack[sp], nonterminal_produced);
                            sp += 1; stack[sp] = g;
                        }
                    }
                } else {
                    return Run { out: Out::Reject, at: pos, sp, stack, steps, reds_since_shift: rss };
                }
            }
            Run { out: Out::Bound, at: pos, sp, stack, steps, reds_since_shift: rss }
        }
        /// Documented meaning of the generated `@P@accepts(None, stack, tok)`: simulating the tables
        /// from `stack` on lookahead `tok` reaches a shift / accept before an error.
        /// Some(b) = decided, None = bound hit.
        pub fn listed_tab(stack0: &[St; D], sp0: usize, tok: Option<usize>, fuel: usize) -> Option<bool> {
            let mut stack = *stack0;
            let mut sp = sp0;
            let mut steps = 0usize;
            while steps < fuel {
                steps += 1;
                let a = act(stack[sp], tok);
                if a == 0 { return Some(false); }
                if a > 0 { return Some(true); }
                match @P@simulate_reduce(-(a + 1), @PH@) {
                    @P@state_machine::SimulatedReduce::Accept => return Some(true),
                    @P@state_machine::SimulatedReduce::Reduce { states_to_pop, nonterminal_produced } => {
                        if states_to_pop > sp || sp - states_to_pop + 1 >= D { return None; }
                        sp -= states_to_pop;
                        let g = @P@goto(stack[sp], nonterminal_produced);
                        sp += 1; stack[sp] = g;
                    }
                }
            }
            None
        }
        pub fn tok_index(t: &@TOK@) -> Option<usize> { @P@token_to_integer(t, @PH@) }
        pub const N_TERMINAL_NAMES: usize = @P@TERMINAL.len();
        pub fn terminal_name(i: usize) -> &'static str { @P@TERMINAL[i] }
        pub fn real_accepts(states: &[St], tok: Option<usize>) -> bool { @P@accepts(None, states, tok, @PH@) }
        pub fn real_expected(states: &[St]) -> alloc::vec::Vec<alloc::string::String> { @P@expected_tokens_from_states(states, @PH@) }
@EXTRA@
    }
'''


def inject(rs, d_bound, tok_path="Tok", extra=""):
    """Returns (new_text, {start: info})."""
    mods = find_parse_mods(rs)
    if not mods:
        raise K.Inconclusive("no `mod __parse__*` found in generated output")
    info = {}
    # process from the end so indices stay valid
    new = rs
    for start, (a, b, p) in sorted(mods.items(), key=lambda kv: -kv[1][0]):
        body = rs[a:b]
        st = state_type(body, p)
        ph = phantom_expr(body, p)
        inj = (VERIF_MOD.replace("@P@", p).replace("@ST@", st).replace("@D@", str(d_bound)).replace("@PH@", ph)
               .replace("@TOK@", tok_path).replace("@EXTRA@", extra))
        close = b - 1  # index of the closing brace line "}\n"
        new = new[:close] + inj + new[close:]
        info[start] = {"state_type": st, "phantom": ph, "recovery": uses_recovery(body),
                       "error_column": error_column(body, p), "prefix": p}
    for start, (a, b, p) in mods.items():
        new += "#[cfg(kani)] pub use self::%sparse%s%s::verif_inj as VX_%s;\n" % (p, p, start, start)
    return new, info


# --------------------------------------------------------------------------------------------
# token enum for the harness crate
# --------------------------------------------------------------------------------------------

def tok_module(g: G.Grammar):
    """Rust text of `pub mod t_<name>`: the token enum (all declared terminals, whatever their
    cfg) and `mk(kind)`; kinds number the *declared* terminals in order."""
    lines = ["#[allow(dead_code)]", "pub mod t_%s {" % g.name,
             "    #[derive(Clone, Debug, PartialEq)]", "    pub enum Tok {"]
    for t in g.terms:
        lines.append("        %s%s," % (t.variant, "(%s)" % t.payload if t.payload else ""))
    lines.append("    }")
    lines.append("    pub const NKINDS: usize = %d;" % len(g.terms))
    lines.append("    pub fn mk(k: u8, payload: u8) -> Tok {")
    lines.append("        match k {")
    for i, t in enumerate(g.terms):
        lines.append("            %d => Tok::%s%s," % (i, t.variant, "(payload as %s)" % t.payload if t.payload else ""))
    lines.append("            _ => panic!(\"bad kind\"),")
    lines.append("        }")
    lines.append("    }")
    lines.append("}")
    return "\n".join(lines) + "\n"


# --------------------------------------------------------------------------------------------
# oracle generation (specification side -> Rust)
# --------------------------------------------------------------------------------------------

@dataclass
class Spec:
    cfg: C.Cfg
    start: str
    cnf: C.Cnf
    kinds: list              # declared terminal names in kind order
    active: list             # bool per kind: terminal present after cfg deletion
    nullable: bool
    lang_nonempty: bool
    max_steps: int
    reduced_ok: bool         # every nonterminal reachable from start is productive => Pre(G) valid


def make_spec(g: G.Grammar, feats, start, n):
    cfg_all, starts = G.to_cfg(g, feats)
    if start not in starts:
        raise G.SpecReject("start %s not public" % start)
    red = C.reduced(cfg_all, [start])
    # Pre(G) is only valid for productive grammars; `reduced` already dropped unproductive parts,
    # which does not change the language, so viability questions are asked on the reduced grammar.
    nonempty = start in red.prods and len(red.prods[start]) > 0
    if nonempty:
        pre = C.prefix_cfg(red, [start])
        cnf = C.to_cnf(pre, [start, start + "^"])
    else:
        cnf = C.Cnf([], [], [], {start: False, start + "^": False}, {start: None, start + "^": None})
    active_names = set(cfg_all.terms)
    ms = C.max_steps(red, start, n) if nonempty else 0
    return Spec(red, start, cnf, [t.name for t in g.terms], [t.name in active_names for t in g.terms],
                cnf.nullable.get(start, False), nonempty, ms if ms is not None else -1,
                True)


def oracle_rust(spec: Spec, m):
    """Rust text: Bits type, term(), bin(), table() over arrays of `m` kinds."""
    nn = len(spec.cnf.nts)
    bits = "u64" if nn <= 64 else "u128"
    if nn > 128:
        raise K.Inconclusive("CNF too large (%d nonterminals)" % nn)
    kind_of = {name: i for i, name in enumerate(spec.kinds)}
    term_mask = {}
    for a, x in spec.cnf.term_rules:
        if x == G.ERROR_TERM:
            continue
        term_mask[kind_of[x]] = term_mask.get(kind_of[x], 0) | (1 << a)
    lines = []
    lines.append("    pub type Bits = %s;" % bits)
    lines.append("    pub const M: usize = %d;" % m)
    lines.append("    #[inline(never)] pub fn term(k: u8) -> Bits { match k {")
    for k, mask in sorted(term_mask.items()):
        lines.append("        %d => 0x%x," % (k, mask))
    lines.append("        _ => 0 } }")
    # group binary rules by (B, C)
    by = {}
    for a, b, c in spec.cnf.bin_rules:
        by[(b, c)] = by.get((b, c), 0) | (1 << a)
    lines.append("    #[inline(never)] pub fn bin(b: Bits, c: Bits) -> Bits {")
    lines.append("        if b == 0 || c == 0 { return 0; }")
    lines.append("        let mut r: Bits = 0;")
    for (b, c), mask in sorted(by.items()):
        lines.append("        r |= (0 as Bits).wrapping_sub((b >> %d) & (c >> %d) & 1) & 0x%x;" % (b, c, mask))
    lines.append("        r")
    lines.append("    }")
    lines.append("""    pub fn table(w: &[u8; M]) -> [[Bits; M + 1]; M] {
        let mut t = [[0 as Bits; M + 1]; M];
        let mut i = 0;
        while i < M { t[i][1] = term(w[i]); i += 1; }
        let mut l = 2;
        while l <= M {
            let mut i = 0;
            while i + l <= M {
                let mut acc: Bits = 0;
                let mut k = 1;
                while k < l { acc |= bin(t[i][k], t[i + k][l - k]); k += 1; }
                t[i][l] = acc;
                i += 1;
            }
            l += 1;
        }
        t
    }""")
    si = spec.cnf.start_index.get(spec.start)
    pi = spec.cnf.start_index.get(spec.start + "^")
    lines.append("    pub const NULLABLE: bool = %s;" % ("true" if spec.nullable else "false"))
    lines.append("    pub const NONEMPTY: bool = %s;" % ("true" if spec.lang_nonempty else "false"))
    lines.append("    pub fn in_lang(t: &[[Bits; M + 1]; M], n: usize) -> bool { if n == 0 { NULLABLE } else { %s } }"
                 % ("(t[0][n] >> %d) & 1 != 0" % si if si is not None else "false"))
    lines.append("    pub fn viable(t: &[[Bits; M + 1]; M], n: usize) -> bool { if n == 0 { NONEMPTY } else { %s } }"
                 % ("(t[0][n] >> %d) & 1 != 0" % pi if pi is not None else "false"))
    return "\n".join(lines) + "\n"


HARNESS_COMMON = r'''
    use crate::@GMOD@::VX_@START@::*;
    use crate::t_@GNAME@::{mk, Tok};
    pub const N: usize = @N@;
    pub const FUEL: usize = @FUEL@;
    pub const NKINDS: u8 = @NKINDS@;
    /// symbolic input: n <= N tokens, each an *active* declared kind, mapped to the generated
    /// terminal index by the real `__token_to_integer`.
    pub fn input() -> (usize, [u8; M], [usize; M]) {
        let n: usize = kani::any();
        kani::assume(n <= N);
        let mut kinds = [0u8; M];
        let mut idx = [0usize; M];
        let mut i = 0;
        while i < M {
            let k: u8 = kani::any();
            kani::assume(k < NKINDS);
            kani::assume(ACTIVE[k as usize]);
            let t = mk(k, 0);
            let ix = tok_index(&t);
            assert!(ix.is_some(), "active terminal is mapped by __token_to_integer");
            kinds[i] = k;
            idx[i] = ix.unwrap();
            i += 1;
        }
        (n, kinds, idx)
    }
    pub const ACTIVE: [bool; @NKINDS@] = [@ACTIVE@];
'''

H_LANG = r'''
    #[kani::proof]
    #[kani::unwind(@UNWIND@)]
    pub fn lang() {
        let (n, kinds, idx) = input();
        let r = lr_run(&idx, n, FUEL);
        assert!(r.out != Out::Bound, "LR run over the real tables halts within the fuel/stack bound");
        assert!(r.out != Out::Extra, "accept action only on end of input");
        let t = table(&kinds);
        let want = in_lang(&t, n);
        assert!((r.out == Out::Accept) == want, "accepted iff derivable from the start symbol");
        assert!(N_TERMINAL_NAMES == @NACTIVE@, "the terminal name table has exactly the active non-error terminals");
@COVERS@
    }
'''

H_ERRPOS = r'''
    #[kani::proof]
    #[kani::unwind(@UNWIND@)]
    pub fn errpos() {
        let (n, kinds, idx) = input();
        let r = lr_run(&idx, n, FUEL);
        assert!(r.out != Out::Bound, "LR run over the real tables halts within the fuel/stack bound");
        assert!(r.out != Out::Extra, "never ExtraToken: accept action only on end of input");
        let t = table(&kinds);
        if r.out == Out::Reject {
            let k = r.at;
            assert!(k <= n);
            assert!(viable(&t, k), "consumed prefix is a prefix of some sentence");
            if k < n {
                assert!(!viable(&t, k + 1), "the reported token is the first that cannot continue the input");
            } else {
                assert!(!in_lang(&t, n));
            }
        } else {
            assert!(in_lang(&t, n));
        }
        kani::cover!(r.out == Out::Reject && r.at < n && r.at > 0, "rejected at a proper token");
        kani::cover!(r.out == Out::Reject && r.at == n && n > 0, "rejected at end of input");
        kani::cover!(r.out == Out::Reject && r.reds_since_shift > 0, "reductions happened before the error was detected");
    }
'''

H_EXPECTED = r'''
    #[kani::proof]
    #[kani::unwind(@UNWIND@)]
    pub fn expected() {
        let (n, kinds, idx) = input();
        let r = lr_run(&idx, n, FUEL);
        assert!(r.out != Out::Bound);
        if r.out == Out::Reject {
            let k = r.at;
            let c: u8 = kani::any();
            kani::assume(c < NKINDS);
            kani::assume(ACTIVE[c as usize]);
            let ci = tok_index(&mk(c, 0)).unwrap();
            let listed = listed_tab(&r.stack, r.sp, Some(ci), FUEL);
            assert!(listed.is_some(), "table simulation from the error stack halts within the bound");
            let listed = listed.unwrap();
            let mut k2 = kinds;
            if k < M { k2[k] = c; }
            let t2 = table(&k2);
            let v = k < M && viable(&t2, k + 1);
            if listed { assert!(v, "a listed terminal continues the consumed prefix"); }
@COMPLETE@
            kani::cover!(listed, "some terminal is listed");
            kani::cover!(!listed, "some terminal is not listed");
            kani::cover!(r.reds_since_shift > 0 && !listed, "error detected after reductions, terminal not listed");
        }
    }
'''


H_ACCEPTS = r'''
    #[kani::proof]
    #[kani::unwind(@UNWIND@)]
    pub fn accepts() {
        // the REAL generated __accepts (heap Vec) against the array-based table simulation, on the error stacks of all
        // rejected inputs; the slice handed to the real function has a concrete length per case (depth <= @DMAX@)
        let (n, kinds, idx) = input();
        let r = lr_run(&idx, n, FUEL);
        assert!(r.out != Out::Bound);
        if r.out == Out::Reject {
            let c: u8 = kani::any();
            kani::assume(c < NKINDS);
            kani::assume(ACTIVE[c as usize]);
            let ci = tok_index(&mk(c, 0)).unwrap();
            let listed = listed_tab(&r.stack, r.sp, Some(ci), FUEL);
            assert!(listed.is_some());
            let listed = listed.unwrap();
            let eof_listed = listed_tab(&r.stack, r.sp, None, FUEL);
@CASES@
            kani::cover!(r.sp >= 2 && listed, "a stack of depth >= 3 with a listed terminal");
        }
    }
'''


@dataclass
class Job:
    g: G.Grammar
    feats: frozenset
    algo: str
    start: str
    n: int
    kinds: list                      # harness kinds: "lang", "errpos", "expected"
    feat_env: bool = False           # pass features through CARGO_FEATURE_* instead of --features
    label: str = ""
    # filled by prepare
    spec: Spec = None
    gen: K.GenResult = None
    modname: str = ""
    hmod: str = ""
    info: dict = None
    fuel: int = 0
    harnesses: list = field(default_factory=list)

    def key(self):
        f = "_".join(sorted(self.feats)) if self.feats else ""
        return "%s%s_%s" % (self.g.name, ("_f" + f) if f else ("_f0" if self.g_has_cfg() else ""), self.algo)

    def g_has_cfg(self):
        g = self.g
        return any(t.cfgs for t in g.terms) or any(n.cfgs or any(a.cfgs for a in n.alts) for n in g.nts)


def generate(job: Job):
    text = G.to_lalrpop(job.g, force_lalr=K.ALGOS[job.algo][0])
    env = dict(K.ALGOS[job.algo][1])
    feats = sorted(job.feats)
    if job.feat_env:
        for f in feats:
            env["CARGO_FEATURE_" + f.upper().replace("-", "_")] = "1"
        return text, K.run_generator_api(text, job.g.name, env=env, features=None)
    return text, K.run_generator(text, job.g.name, env=env, features=feats if feats else None)


def covers_for(spec: Spec, n):
    lens = C.sentence_lengths(spec.cfg, spec.start, n) if spec.lang_nonempty else []
    out = []
    if lens:
        out.append('        kani::cover!(r.out == Out::Accept && n == %d, "a sentence of the largest length within the bound is accepted");' % max(lens))
    out.append('        kani::cover!(r.out == Out::Reject, "some input is rejected");')
    return "\n".join(out)


def harness_module(job: Job):
    spec = job.spec
    n = job.n
    m = n + 1 if "expected" in job.kinds else n
    if m < 1:
        m = 1
    fuel = job.fuel
    unwind = max(fuel, m + 1, len(spec.kinds) + 1) + 2
    txt = []
    txt.append(oracle_rust(spec, m))
    common = (HARNESS_COMMON.replace("@GMOD@", job.modname).replace("@START@", job.start)
              .replace("@GNAME@", job.g.name).replace("@N@", str(n)).replace("@FUEL@", str(fuel))
              .replace("@NKINDS@", str(len(spec.kinds)))
              .replace("@ACTIVE@", ", ".join("true" if a else "false" for a in spec.active)))
    txt.append(common)
    hs = []
    if "lang" in job.kinds:
        txt.append(H_LANG.replace("@UNWIND@", str(unwind)).replace("@COVERS@", covers_for(spec, n)).replace("@NACTIVE@", str(sum(1 for a in spec.active if a))))
        hs.append("lang")
    if "errpos" in job.kinds:
        txt.append(H_ERRPOS.replace("@UNWIND@", str(unwind)))
        hs.append("errpos")
    if "expected" in job.kinds:
        complete = ""
        if job.algo == "lr1":
            complete = '            if v { assert!(listed, "canonical LR(1): every valid continuation is listed"); }'
        txt.append(H_EXPECTED.replace("@UNWIND@", str(unwind)).replace("@COMPLETE@", complete))
        hs.append("expected")
    if "accepts" in job.kinds:
        dmax = 4
        cases = []
        for d in range(1, dmax + 1):
            cases.append("            if r.sp + 1 == %d { let got = real_accepts(&r.stack[..%d], Some(ci)); assert!(got == listed, \"real __accepts agrees with the table simulation\"); }" % (d, d))
        txt.append(H_ACCEPTS.replace("@UNWIND@", str(unwind)).replace("@DMAX@", str(dmax)).replace("@CASES@", "\n".join(cases)))
        hs.append("accepts")
    job.harnesses = ["%s::%s" % (job.hmod, h) for h in hs]
    return "\n".join(txt) + "\n"


def prepare(jobs, crate_name="e1"):
    """Generate parsers, inject, write one Kani crate with all harnesses.
    Returns (crate, accepted_jobs, rejected_jobs)."""
    crate = K.KaniCrate(crate_name)
    lib = ["#![allow(unused, non_snake_case, non_camel_case_types)]", "extern crate alloc;"]
    seen_tok = set()
    accepted, rejected = [], []
    used = {}
    for job in jobs:
        job.spec = make_spec(job.g, job.feats, job.start, job.n)
        text, gen = generate(job)
        job.gen = gen
        job.text = text
        if not gen.ok:
            rejected.append(job)
            continue
        base = job.key() + ("_env" if job.feat_env else "")
        job.modname = "g_" + base
        job.hmod = "h_%s_%s" % (base, job.start)
        dbound = job.n + len(job.spec.cfg.prods) + 4
        margin = len(job.spec.cfg.prods) + 3
        job.fuel = job.spec.max_steps + margin + 1
        if job.modname not in used:
            new, info = inject(gen.rs, dbound)
            used[job.modname] = info
            crate.write(job.modname + ".rs", new)
            lib.append("pub mod %s;" % job.modname)
        job.info = used[job.modname]
        if job.g.name not in seen_tok:
            seen_tok.add(job.g.name)
            lib.append(tok_module(job.g))
        crate.write(job.hmod + ".rs", harness_module(job))
        lib.append("#[cfg(kani)] pub mod %s;" % job.hmod)
        accepted.append(job)
    crate.write("lib.rs", "\n".join(lib) + "\n")
    return crate, accepted, rejected
