"""Engine E2 `redsym`: Kani on ONE real reduce step (`__reduce(p, ..)` of the generated module) from an
arbitrary well-typed stack of concrete shape, for every production p.  Expectations come from the
specification side (corpus.actions.spec_productions)."""
from __future__ import annotations
import re

from corpus import actions as A
from corpus import gram as G
from . import common as K
from . import e1


# --------------------------------------------------------------------------------------------
# reading the generated module
# --------------------------------------------------------------------------------------------

def split_production(text):
    """`E = E, "+", T` -> ("E", ("E", "\"+\"", "T")); items may be quoted terminals, names, or LALRPOP's printed forms
    of generated nonterminals such as `("," <"n">)+`."""
    lhs, rhs = text.split(" =", 1)
    rhs = rhs.strip()
    items, cur, depth, inq = [], "", 0, False
    i = 0
    while i < len(rhs):
        c = rhs[i]
        if inq:
            cur += c
            if c == "\\" and i + 1 < len(rhs):
                cur += rhs[i + 1]
                i += 1
            elif c == '"':
                inq = False
        elif c == '"':
            inq = True
            cur += c
        elif c in "(<":
            depth += 1
            cur += c
        elif c in ")>":
            depth -= 1
            cur += c
        elif c == "," and depth == 0:
            if cur.strip():
                items.append(cur.strip())
            cur = ""
        else:
            cur += c
        i += 1
    if cur.strip():
        items.append(cur.strip())
    return lhs.strip(), tuple(items)


def read_module(mod_text, p):
    """-> dict(variants={K: type}, prods={index: dict(text, lhs, rhs, pops=[variant..], push=variant|None, nt=int|None, accept=bool, fallible=bool)})"""
    variants = {}
    em = re.search(r"pub\(crate\) enum " + p + r"Symbol<.*?>\s*\{(.*?)\n    \}", mod_text, re.S)
    for m in re.finditer(r"Variant(\d+)\((.*)\),", em.group(1)):
        variants[int(m.group(1))] = m.group(2).strip()
    prods = {}
    # bodies: either in `fn __reduceN<` or inline in the match arm of `fn __reduce<`
    bodies = {}
    for m in re.finditer(r"fn " + p + r"reduce(\d+)<.*?\n    \{\n(.*?)\n    \}\n", mod_text, re.S):
        bodies[int(m.group(1))] = m.group(2)
    rm = re.search(r"fn " + p + r"reduce<.*?match " + p + r"action \{\n(.*?)\n            _ => panic!", mod_text, re.S)
    arms = re.split(r"\n            (\d+) => \{\n", "\n" + rm.group(1))
    for i in range(1, len(arms), 2):
        idx = int(arms[i])
        body = arms[i + 1]
        if (p + "reduce%d(" % idx) not in body:
            bodies[idx] = body
    for idx, body in bodies.items():
        cm = re.search(r"// (.*) => ActionFn\((\d+)\);", body)
        if not cm:
            continue
        lhs, rhs = split_production(cm.group(1))
        pops = [int(x) for x in re.findall(p + r"pop_Variant(\d+)\(", body)]
        pops.reverse()      # generated code pops last symbol first
        pm = re.search(p + r"symbols\.push\(\(.*?" + p + r"Symbol::Variant(\d+)\(", body)
        tm = re.search(r"\n\s*\((\d+), (\d+)\)\s*$", body.rstrip())
        prods[idx] = {"text": cm.group(1), "lhs": lhs, "rhs": rhs, "pops": pops,
                      "push": int(pm.group(1)) if pm else None, "nt": int(tm.group(2)) if tm else None,
                      "accept": "return Some(Ok(" in body, "fallible": "Err(e) => return Some(Err(e))" in body}
    return {"variants": variants, "prods": prods}


# --------------------------------------------------------------------------------------------
# expression generation
# --------------------------------------------------------------------------------------------

def calls_of(expr, out):
    k = expr[0]
    if k == "sub":
        n = expr[1]
        if any(c is n for c in out):
            return out
        # inlined symbols of the alternative in symbol order (used by the action or not), then the action itself
        for a in list(getattr(n, "pre", [])) + list(n.args):
            calls_of(a, out)
        if n.kind in ("user", "fallible"):
            out.append(n)
    elif k in ("pairfst", "pairsnd", "inc", "some"):
        calls_of(expr[1], out)
    elif k in ("tuple", "vec"):
        for e in expr[1]:
            calls_of(e, out)
    elif k == "vecpush":
        calls_of(expr[1], out)
        calls_of(expr[2], out)
    return out


VEC_LEAF_LEN = 2


def vec_elems(expr, leaves, calls):
    """element expressions (Rust) of a Vec-valued specification expression; shapes are concrete"""
    k = expr[0]
    if k == "vec":
        return [rust(e, leaves, calls) for e in expr[1]]
    if k == "leaf":
        return ["v%d_%d" % (expr[1], j) for j in range(VEC_LEAF_LEN)]
    if k == "vecpush":
        return vec_elems(expr[1], leaves, calls) + [rust(expr[2], leaves, calls)]
    if k == "sub" and expr[1].kind == "default":
        return vec_elems(expr[1].args[0], leaves, calls)
    raise ValueError(expr)


def words(expr, kind, leaves, calls):
    """u8 words a recording action receives for one argument"""
    if kind == "vec":
        el = vec_elems(expr, leaves, calls)
        return [str(len(el))] + [el[i] if i < len(el) else "0" for i in range(3)]
    if kind == "opt":
        if expr[0] == "none":
            return ["0", "0"]
        if expr[0] == "some":
            return ["1", rust(expr[1], leaves, calls)]
        raise ValueError(expr)
    ex = rust(expr, leaves, calls)
    if kind == "loc" or is_loc(expr, leaves):
        return ["(%s) as u8" % ex]
    return [ex]


def is_loc(expr, leaves):
    k = expr[0]
    if k in ("lstart", "lend", "empty"):
        return True
    if k == "leaf":
        return leaves[expr[1]].cls == "loc"
    if k == "sub":
        n = expr[1]
        if n.kind == "default":
            return n.ty == "loc"
        return False
    return False


def rust(expr, leaves, calls):
    k = expr[0]
    if k == "leaf":
        return "v%d" % expr[1]
    if k == "lstart":
        return "s%d" % expr[1]
    if k == "lend":
        return "e%d" % expr[1]
    if k == "empty":
        return "empty_pos"
    if k == "unit":
        return "()"
    if k == "pairfst":
        return "(%s).0" % rust(expr[1], leaves, calls)
    if k == "pairsnd":
        return "(%s).1" % rust(expr[1], leaves, calls)
    if k == "inc":
        return "(%s).wrapping_add(1)" % rust(expr[1], leaves, calls)
    if k == "tuple":
        return "(%s)" % ", ".join(rust(e, leaves, calls) for e in expr[1])
    if k == "sub":
        n = expr[1]
        if n.kind in ("user", "fallible"):
            j = [i for i, c in enumerate(calls) if c is n][0]
            return "rec::ret(%d)" % j
        return rust(n.args[0], leaves, calls)
    raise ValueError(expr)


REC_MOD = r'''
#[allow(dead_code, static_mut_refs)]
pub mod rec_@G@ {
    //! Recording actions.  Under Kani every call returns a fresh symbolic value and fallible calls
    //! fail exactly when their call index equals the (symbolic) FAIL position.
    use lalrpop_util::ParseError;
    use crate::t_@G@::Tok;
    pub const MAXC: usize = 8;
    pub static mut N: usize = 0;
    pub static mut IDS: [u8; MAXC] = [0; MAXC];
    pub static mut NARGS: [u8; MAXC] = [0; MAXC];
    pub static mut ARGS: [[u8; 12]; MAXC] = [[0; 12]; MAXC];
    pub static mut RET: [u8; MAXC] = [0; MAXC];
    pub static mut FAIL: u8 = 255;
    pub static mut ERR: u8 = 0;
    #[cfg(kani)]
    pub fn reset(fail: u8) { unsafe { N = 0; FAIL = fail; ERR = kani::any(); let mut i = 0; while i < MAXC { RET[i] = kani::any(); i += 1; } } }
    fn log(id: u8, args: &[u8]) -> usize {
        unsafe {
            let n = N;
            if n < MAXC {
                IDS[n] = id; NARGS[n] = args.len() as u8;
                let mut i = 0; while i < args.len() && i < 12 { ARGS[n][i] = args[i]; i += 1; }
            }
            N = n + 1;
            n
        }
    }
    pub fn r(id: u8, args: &[u8]) -> u8 { let n = log(id, args); unsafe { RET[n % MAXC] } }
    pub fn f(id: u8, args: &[u8]) -> Result<u8, ParseError<usize, Tok, u8>> {
        let n = log(id, args);
        unsafe { if FAIL as usize == n { Err(ParseError::User { error: ERR }) } else { Ok(RET[n % MAXC]) } }
    }
    /// words of a Vec argument: [len, e0, e1, e2] (0 for absent); of an Option argument: [is_some, value]
    pub fn wv(v: &alloc::vec::Vec<u8>) -> [u8; 4] { let mut w = [0u8; 4]; w[0] = v.len() as u8; let mut i = 0; while i < v.len() && i < 3 { w[1 + i] = v[i]; i += 1; } w }
    pub fn wo(o: Option<u8>) -> [u8; 2] { match o { Some(x) => [1, x], None => [0, 0] } }
    pub fn n() -> usize { unsafe { N } }
    pub fn ret(j: usize) -> u8 { unsafe { RET[j] } }
    pub fn err() -> u8 { unsafe { ERR } }
    pub fn id(j: usize) -> u8 { unsafe { IDS[j] } }
    pub fn nargs(j: usize) -> u8 { unsafe { NARGS[j] } }
    pub fn arg(j: usize, i: usize) -> u8 { unsafe { ARGS[j][i] } }
}
'''

CLS_TYPE = {"u8": "u8", "loc": "usize", "pair": "(u8, u8)", "unit": "()"}


def harness_for(g: G.Grammar, pidx, gp, sp, variants, p, ph, nstart, below=True):
    """Rust text of the harness for production index `pidx` (gp: generated info, sp: SpecProd or None).
    `below`: one more symbol under the production's children (concrete: merging differently sized
    Vecs under a symbolic branch makes CBMC's realloc model lose data – a modelling artefact)."""
    k = len(gp["pops"])
    name = "red_%d_b%d" % (pidx, 1 if below else 0)
    L = []
    L.append("        #[kani::proof]")
    L.append("        #[kani::unwind(14)]")
    L.append("        pub fn %s() {" % name)
    L.append("            // %s" % gp["text"])
    L.append("            use crate::rec_%s as rec;" % g.name)
    L.append("            let fail: u8 = kani::any();")
    L.append("            rec::reset(fail);")
    L.append("            let has_below: bool = %s;" % ("true" if below else "false"))
    L.append("            let (bs, be): (usize, usize) = (kani::any(), kani::any());")
    leaves = sp.leaves if sp else None
    for i in range(k):
        ty = variants[gp["pops"][i]]
        L.append("            let (s%d, e%d): (usize, usize) = (kani::any(), kani::any());" % (i, i))
        if ty == "Tok":
            # a payload-less terminal: build the very token of this leaf
            tname = gp["rhs"][i].strip('"') if i < len(gp["rhs"]) else None
            kinds = [j for j, t in enumerate(g.terms) if t.name == tname]
            kind = kinds[0] if kinds else 0
            L.append("            let v%d: Tok = crate::t_%s::mk(%d, kani::any());" % (i, g.name, kind))
        elif ty.startswith("alloc::vec::Vec<"):
            for j in range(VEC_LEAF_LEN):
                L.append("            let v%d_%d: %s = kani::any();" % (i, j, ty[len("alloc::vec::Vec<"):-1]))
            L.append("            let v%d: %s = alloc::vec![%s];" % (i, ty, ", ".join("v%d_%d" % (i, j) for j in range(VEC_LEAF_LEN))))
        else:
            L.append("            let v%d: %s = kani::any();" % (i, ty))
    # a symbol for the slot below: any u8-typed variant, else the first variant
    bvar = None
    for vk, ty in sorted(variants.items()):
        if ty == "u8":
            bvar = (vk, "kani::any::<u8>()")
            break
    if bvar is None:
        vk, ty = sorted(variants.items())[0]
        bvar = (vk, "crate::t_%s::mk(0, 0)" % g.name if ty == "Tok" else "kani::any::<%s>()" % ty)
    sym = lambda i: "(s%d, %sSymbol::Variant%d(v%d.clone()), e%d)" % (i, p, gp["pops"][i], i, i)
    leaf_list = ", ".join(sym(i) for i in range(k))
    below = "(bs, %sSymbol::Variant%d(%s), be)" % (p, bvar[0], bvar[1])
    L.append("            let mut symbols: alloc::vec::Vec<(usize, %sSymbol, usize)> = if has_below { alloc::vec![%s] } else { alloc::vec![%s] };" %
             (p, ", ".join([below] + ([leaf_list] if k else [])), leaf_list))
    L.append("            let st: [St; %d] = kani::any();" % (k + 2))
    L.append("            let mut states: alloc::vec::Vec<St> = if has_below { alloc::vec![%s] } else { alloc::vec![%s] };" %
             (", ".join("st[%d]" % i for i in range(k + 2)), ", ".join("st[%d]" % i for i in range(k + 1))))
    L.append("            let nbelow: usize = if has_below { 1 } else { 0 };")
    L.append("            let la_some: bool = kani::any();")
    L.append("            let la: usize = kani::any();")
    L.append("            let empty_pos: usize = if la_some { la } else if has_below { be } else { Default::default() };")
    L.append("            let r = %sreduce(%d, if la_some { Some(&la) } else { None }, &mut states, &mut symbols, %s);" % (p, pidx, ph))
    if sp is None:
        L.append("            // no specification production matched: only absence of panics is checked")
        L.append("        }")
        return name, "\n".join(L) + "\n", "no-spec"
    calls = calls_of(sp.root, [])
    m = len(calls)
    fall_idx = [j for j, c in enumerate(calls) if c.kind == "fallible"]
    L.append("            let failed = %s;" % (" || ".join("fail == %d" % j for j in fall_idx) if fall_idx else "false"))
    L.append("            let ncalls: usize = if failed { fail as usize + 1 } else { %d };" % m)
    L.append('            assert!(rec::n() == ncalls, "number of user-action calls (each tree node once; none after a failing action)");')
    for j, c in enumerate(calls):
        L.append("            if %d < ncalls {" % j)
        L.append('                assert!(rec::id(%d) == %d, "call %d is action %d (post-order, left to right)");' % (j, c.id, j, c.id))
        L.append('                assert!(rec::nargs(%d) == %d, "argument count");' % (j, sum(len(words(a, kk, leaves, calls)) for a, kk in zip(c.args, getattr(c, "argkinds", ["u8"] * len(c.args))))))
        kinds = getattr(c, "argkinds", ["u8"] * len(c.args))
        wi = 0
        for t, a in enumerate(c.args):
            for wx in words(a, kinds[t], leaves, calls):
                what = "location argument" if (kinds[t] == "loc" or is_loc(a, leaves)) else "argument"
                L.append('                assert!(rec::arg(%d, %d) == %s, "%s %d of call %d");' % (j, wi, wx, what, t, j))
                wi += 1
        L.append("            }")
    if gp["accept"]:
        L.append("            match r {")
        L.append("                Some(Ok(v)) => { assert!(!failed); assert!(v == %s, \"accepted value is the start symbol's value\"); }" % rust(sp.root, leaves, calls))
        L.append("                Some(Err(lalrpop_util::ParseError::User { error })) => { assert!(failed); assert!(error == rec::err(), \"user error returned verbatim\"); }")
        L.append('                _ => panic!("accept reduction must return Some"),')
        L.append("            }")
        L.append("        }")
        return name, "\n".join(L) + "\n", "spec"
    L.append("            if failed {")
    L.append("                match r {")
    L.append('                    Some(Err(lalrpop_util::ParseError::User { error })) => assert!(error == rec::err(), "the user error is returned verbatim"),')
    L.append('                    _ => panic!("a failing action must end the reduction with Some(Err(User))"),')
    L.append("                }")
    L.append('                assert!(symbols.len() == nbelow, "nothing is pushed after a failing action");')
    L.append('                assert!(states.len() == nbelow + %d, "states untouched after a failing action");' % (k + 1))
    L.append("            } else {")
    L.append('                assert!(r.is_none(), "an ordinary reduction returns None");')
    L.append('                assert!(symbols.len() == nbelow + 1, "k symbols popped, one pushed");')
    L.append('                assert!(states.len() == nbelow + 2, "k states popped, goto target pushed");')
    L.append("                let mut i = 0; while i <= nbelow { assert!(states[i] == st[i], \"states below are untouched\"); i += 1; }")
    L.append("                match %ssimulate_reduce(%d, %s) {" % (p, pidx, ph))
    L.append("                    %sstate_machine::SimulatedReduce::Reduce { states_to_pop, nonterminal_produced } => {" % p)
    L.append('                        assert!(states_to_pop == %d, "__simulate_reduce agrees on the number of symbols");' % k)
    L.append('                        assert!(states[nbelow + 1] == %sgoto(st[nbelow], nonterminal_produced), "goto target of the produced nonterminal");' % p)
    L.append("                    }")
    L.append('                    _ => panic!("not the accept production"),')
    L.append("                }")
    L.append("                let top = symbols.pop().unwrap();")
    if k > 0:
        L.append('                assert!(top.0 == s0, "span starts at the start of the first child");')
        L.append('                assert!(top.2 == e%d, "span ends at the end of the last child");' % (k - 1))
    else:
        L.append('                assert!(top.0 == empty_pos && top.2 == empty_pos, "empty production: zero-width span at the lookahead start | end of the symbol below | default");')
    if sp.ty == "vec":
        el = vec_elems(sp.root, leaves, calls)
        L.append("                match top.1 {")
        L.append('                    %sSymbol::Variant%d(v) => { assert!(v.len() == %d, "pushed Vec has the items so far plus the new one"); %s core::mem::forget(v); }' %
                 (p, gp["push"], len(el), " ".join('assert!(v[%d] == %s, "Vec keeps the items in input order");' % (i, e) for i, e in enumerate(el))))
        L.append('                    _ => panic!("pushed symbol has the wrong variant"),')
        L.append("                }")
        L.append("            }")
        L.append('            kani::cover!(!failed, "a run without a failing action");')
        L.append("            core::mem::forget(symbols); core::mem::forget(states);")
        L.append("        }")
        return name, "\n".join(L) + "\n", "spec"
    val = rust(sp.root, leaves, calls)
    L.append("                match top.1 {")
    L.append('                    %sSymbol::Variant%d(v) => assert!(v == %s, "pushed value"),' % (p, gp["push"], val))
    L.append('                    _ => panic!("pushed symbol has the wrong variant"),')
    L.append("                }")
    L.append("            }")
    L.append('            kani::cover!(!failed, "a run without a failing action");')
    if fall_idx:
        L.append('            kani::cover!(failed, "a run with a failing action");')
    L.append("            core::mem::forget(symbols); core::mem::forget(states);")
    L.append("        }")
    return name, "\n".join(L) + "\n", "spec"


def tts_harnesses(body, p, ph):
    """Harnesses for the terminal-conversion chain of corpus/actions.TTS_TERMS: real __token_to_integer -> real
    __token_to_symbol -> real __reduce of the production `S = "<terminal>"`, symbolic captured values; the recording
    action must receive the captures in written order.  -> [(name, text, description)]"""
    info = read_module(body, p)
    out = []
    for i, (tname, pat, tys, _) in enumerate(A.TTS_TERMS):
        pidx = [k for k, gp in info["prods"].items() if gp["lhs"] == "S" and gp["rhs"] == ('"%s"' % tname,)]
        if len(pidx) != 1:
            raise K.Inconclusive("tts: no unique generated production S = \"%s\" (%s)" % (tname, pidx))
        L = ["        #[kani::proof]", "        #[kani::unwind(14)]", "        pub fn tts_%d() {" % i,
             '            // terminal "%s" => %s' % (tname, pat % tuple("<%s>" % t for t in tys)),
             "            use crate::rec_tts as rec;", "            rec::reset(255);"]
        for j, t in enumerate(tys):
            L.append("            let c%d: %s = kani::any();" % (j, t))
        L.append("            let tok = %s;" % (pat % tuple("c%d" % j for j in range(len(tys)))))
        L.append('            let idx = match %stoken_to_integer(&tok, %s) { Some(i) => i, None => panic!("declared terminal not recognised by __token_to_integer") };' % (p, ph))
        L.append("            let sym = %stoken_to_symbol(idx, tok, %s);" % (p, ph))
        L.append("            let (bs, be, s0, e0): (usize, usize, usize, usize) = (kani::any(), kani::any(), kani::any(), kani::any());")
        L.append("            let mut symbols: alloc::vec::Vec<(usize, %sSymbol, usize)> = alloc::vec![(bs, %stoken_to_symbol(idx, %s, %s), be), (s0, sym, e0)];" %
                 (p, p, pat % tuple("0" for _ in tys), ph))
        L.append("            let st: [St; 3] = kani::any();")
        L.append("            let mut states: alloc::vec::Vec<St> = alloc::vec![st[0], st[1], st[2]];")
        L.append("            let r = %sreduce(%d, None, &mut states, &mut symbols, %s);" % (p, pidx[0], ph))
        L.append('            assert!(r.is_none(), "an ordinary reduction returns None");')
        L.append('            assert!(rec::n() == 1, "number of user-action calls (each tree node once; none after a failing action)");')
        L.append('            assert!(rec::id(0) == %d, "call 0 is action %d (post-order, left to right)");' % (i + 1, i + 1))
        words = [w for j, t in enumerate(tys) for w in A.tts_words(t, "c%d" % j)]
        L.append('            assert!(rec::nargs(0) == %d, "argument count");' % len(words))
        for wi, w in enumerate(words):
            L.append('            assert!(rec::arg(0, %d) == (%s), "argument %d of call 0 (captures of a terminal in written order)");' % (wi, w, wi))
        L.append('            assert!(symbols.len() == 2, "k symbols popped, one pushed");')
        L.append('            kani::cover!(true, "a run without a failing action");')
        L.append("            core::mem::forget(symbols); core::mem::forget(states);")
        L.append("        }")
        out.append(("tts_%d" % i, "\n".join(L) + "\n", 'tts: "%s" => %s' % (tname, pat % tuple("<%s>" % t for t in tys))))
    return out


def prepare(grammars, crate_name="e2", algo="lane", tts=False):
    """-> (crate, [(harness, description)], notes)"""
    crate = K.KaniCrate(crate_name)
    lib = ["#![allow(unused, non_snake_case, non_camel_case_types, static_mut_refs)]", "extern crate alloc;"]
    harnesses = []
    notes = []
    for g in grammars:
        text = G.to_lalrpop(g, force_lalr=K.ALGOS[algo][0])
        gen = K.run_generator(text, g.name, env=dict(K.ALGOS[algo][1]))
        if not gen.ok:
            notes.append("generator rejected corpus grammar %s: %s" % (g.name, gen.out.strip().splitlines()[-1:]))
            continue
        specs = A.spec_productions(g)
        mods = e1.find_parse_mods(gen.rs)
        start = sorted(mods.items(), key=lambda kv: kv[1][0])[0][0]
        a, b, p = mods[start]
        body = gen.rs[a:b]
        ph = e1.phantom_expr(body, p)
        info = read_module(body, p)
        extra = []
        used_specs = set()
        for pidx in sorted(info["prods"]):
            gp = info["prods"][pidx]
            if gp["lhs"] in ("@L", "@R"):
                continue
            key = (gp["lhs"], gp["rhs"])
            sp = specs.get(key)
            if gp["accept"]:
                # __S = S : value of the only child
                sp = A.SpecProd(gp["lhs"], [A.Leaf(gp["rhs"][0], "u8")], ("leaf", 0), "u8")
            if sp is None:
                defs = {n.name: n for n in g.nts}
                if gp["lhs"] in defs and defs[gp["lhs"]].inline:
                    continue      # productions of inlined nonterminals stay in the table but are unreachable
                if gp["lhs"].endswith(("*", "?")) or (gp["lhs"].startswith("(") and gp["lhs"].endswith(")")) or gp["lhs"].startswith(p):
                    continue      # X*, X?, groups are inlined by LALRPOP itself; __X = X of another start symbol is unreachable here
                notes.append("%s: generated production `%s` has no specification counterpart" % (g.name, gp["text"]))
            else:
                used_specs.add(key)
            for below in ((True, False) if len(gp["pops"]) == 0 else (True,)):
                name, txt, kind = harness_for(g, pidx, gp, sp, info["variants"], p, ph, start, below)
                extra.append(txt)
                harnesses.append(("g_%s::%sparse%s%s::verif_inj::%s" % (g.name, p, p, start, name), "%s: %s%s" % (g.name, gp["text"], "" if below else " (empty stack)"), kind))
        for key in specs:
            if key not in used_specs:
                notes.append("%s: specification production %s = %s was not generated" % (g.name, key[0], " ".join(key[1])))
        # inject only into the first parse module
        inj_text, _ = inject_one(gen.rs, start, mods, "\n".join(extra))
        crate.write("g_%s.rs" % g.name, inj_text)
        lib.append("pub mod g_%s;" % g.name)
        lib.append(e1.tok_module(g))
        lib.append(REC_MOD.replace("@G@", g.name))
    if tts:
        text, tokmod = A.tts_grammar()
        gen = K.run_generator(text, "tts", env=dict(K.ALGOS[algo][1]))
        if not gen.ok:
            raise K.Inconclusive("generator rejected the terminal-conversion grammar: %s" % gen.out.strip().splitlines()[-3:])
        mods = e1.find_parse_mods(gen.rs)
        a, b, p = mods["S"]
        body = gen.rs[a:b]
        ph = e1.phantom_expr(body, p)
        hs = tts_harnesses(body, p, ph)
        inj_text, _ = inject_one(gen.rs, "S", mods, "\n".join(t for _, t, _ in hs))
        crate.write("g_tts.rs", inj_text)
        lib += ["pub mod g_tts;", tokmod, REC_MOD.replace("@G@", "tts")]
        for name, _, d in hs:
            harnesses.append(("g_tts::%sparse%sS::verif_inj::%s" % (p, p, name), d, "spec"))
    crate.write("lib.rs", "\n".join(lib) + "\n")
    return crate, harnesses, notes


def inject_one(rs, start, mods, extra):
    a, b, p = mods[start]
    body = rs[a:b]
    st = e1.state_type(body, p)
    ph = e1.phantom_expr(body, p)
    inj = (e1.VERIF_MOD.replace("@P@", p).replace("@ST@", st).replace("@D@", "8").replace("@PH@", ph)
           .replace("@TOK@", "Tok").replace("@EXTRA@", extra))
    close = b - 1
    new = rs[:close] + inj + rs[close:]
    new += "#[cfg(kani)] pub use self::%sparse%s%s::verif_inj as VX_%s;\n" % (p, p, start, start)
    return new, None
