"""python3-vt -m vlib.kprobe <crate_dir> [--timeout S] [--mem GB] [--jobs J] harness...   (dev probe under limits)"""
import sys, os, argparse, subprocess, re
from . import common as K

class Dummy:
    pass

def list_harnesses(d):
    out = subprocess.run(["cargo", "kani", "list", "--format", "json"], cwd=d, env=K.env_with(), stdout=subprocess.PIPE, stderr=subprocess.STDOUT, text=True).stdout
    return out

def main():
    ap = argparse.ArgumentParser()
    ap.add_argument("dir"); ap.add_argument("--timeout", type=int, default=300); ap.add_argument("--mem", type=float, default=10)
    ap.add_argument("--jobs", type=int, default=None); ap.add_argument("--stub", action="store_true")
    ap.add_argument("harness", nargs="+")
    a = ap.parse_args()
    c = Dummy(); c.dir = os.path.abspath(a.dir)
    extra = ["-Z", "stubbing"] if a.stub else None
    res = K.run_kani(c, a.harness, timeout_s=a.timeout, mem_gb=a.mem, jobs=a.jobs, extra_args=extra)
    for h in a.harness:
        r = res[h]
        print(h, r.status, "%.1fs" % r.wall_s, "checks", r.checks_total, "covers %d/%d" % (r.covers_sat, r.covers_total), r.failed_checks[:3], r.unsat_covers[:3])
        if r.status not in ("SUCCESSFUL", "FAILED"):
            print(r.log[-1500:])

main()
