"""Run a set of E1 jobs for one property: generate, inject, Kani, playback, native replay,
evidence."""
from __future__ import annotations
import itertools
import json
import os
import struct
import time

from . import common as K
from . import e1
from . import native
from corpus import gram as G
from corpus import cfg as C


REQ_COVER_PREFIXES = ("a sentence of the largest length", "some input is rejected")


def all_inputs(nk_active, maxlen):
    for l in range(maxlen + 1):
        for w in itertools.product(nk_active, repeat=l):
            yield list(w)


def plain_grammar_text(job):
    """The specification CFG of a job printed as a plain LALRPOP grammar (no sugar at all)."""
    import re as _re
    from corpus import gram as GG
    cfg_all, starts = GG.to_cfg(job.g, job.feats)
    ren = {}

    def nm(a):
        if a not in ren:
            ren[a] = "N%d_%s" % (len(ren), _re.sub(r"[^A-Za-z0-9]", "", a)[:12])
        return ren[a]
    terms_, _ = GG.apply_cfg(job.g, set(job.feats))
    nts = []
    for a, ps in cfg_all.prods.items():
        alts = []
        for p in ps:
            syms = []
            for s_ in p:
                if C.is_term(s_):
                    if s_[1:] == GG.ERROR_TERM:
                        syms.append(GG.Err())
                    else:
                        syms.append(GG.Tm(s_[1:]))
                else:
                    syms.append(GG.Nt(nm(s_)))
            alts.append(GG.Alt(syms))
        nts.append(GG.NT(nm(a), alts, pub=(a in starts)))
    g2 = GG.Grammar(job.g.name, [GG.Term(t.name, t.variant, t.payload, [], getattr(t, "bare", False)) for t in terms_], nts)
    # bare terminals are referenced as identifiers
    bare = {t.name for t in terms_ if getattr(t, "bare", False)}
    if bare:
        for n in g2.nts:
            for a in n.alts:
                a.syms = [GG.Nt(x.name) if isinstance(x, GG.Tm) and x.name in bare else x for x in a.syms]
    return GG.to_lalrpop(g2, force_lalr=K.ALGOS[job.algo][0])


def compress(names):
    out, i = [], 0
    while i < len(names):
        j = i
        while j < len(names) and names[j] == names[i]:
            j += 1
        out.append(names[i] if j - i == 1 else "%s^%d" % (names[i], j - i))
        i = j
    return " ".join(out)


def replay_files(job, kinds, observed, complaints, extra=None, nat=None, orc=None):
    exp = None
    if orc is not None:
        exp = orc.expect(kinds)
        if "valid_next" in exp:
            exp = dict(exp, valid_next=sorted(exp["valid_next"]))
    files = {
        "grammar.lalrpop": job.text,
        "case.json": json.dumps({
            "grammar": job.g.name, "algorithm": job.algo, "features": sorted(job.feats),
            "start": job.start, "input_kinds": kinds,
            "input_terminals": [job.g.terms[k].name for k in kinds],
            "observed": observed, "complaints": complaints, "extra": extra or {}, "expected": exp, "module": job.modname,
            "env": K.ALGOS[job.algo][1], "lalr_attribute": K.ALGOS[job.algo][0],
        }, indent=1),
        "README": "Replay: ./check %s --replay <this dir>  (regenerates the parser from grammar.lalrpop with the recorded "
                  "configuration, parses the recorded token kinds through the public parse() API and compares with the "
                  "specification).\n",
    }
    if nat is not None:
        files["main.rs"] = open(os.path.join(nat.crate.dir, "src", "main.rs")).read()
    return files


def run_property(pid, tier, jobs, *, native_len, timeout_s, functions, assumptions, level_note_extra="",
                 crate_name=None, kani_jobs=None, deep=False, ascent=False):
    t0 = time.time()
    known = K.load_known_findings().get(pid, {})
    crate, accepted, rejected = e1.prepare(jobs, crate_name or ("e1_" + pid.lower()))
    inconclusive = []
    violations = []      # (key, text, replay_path)
    known_hit = []
    for j in rejected:
        msg = j.gen.out.strip().splitlines()[-1:]
        # differential: the documented desugaring of the same grammar, written out as a plain grammar, under the same algorithm
        try:
            plain = plain_grammar_text(j)
            pg = K.run_generator(plain, j.g.name + "_plain", env=dict(K.ALGOS[j.algo][1]), features=None)
        except Exception as ex:
            plain, pg = None, None
        if pg is not None and pg.ok:
            key = "rejects:%s:%s" % (j.g.name, j.algo)
            if not any(v[0] == key for v in violations):
                violations.append((key, "the generator rejects corpus grammar %s [%s] (%s) although the plain grammar the documentation says it stands for is accepted" % (j.g.name, j.algo, msg),
                                   {"grammar.lalrpop": j.text, "documented_desugaring.lalrpop": plain, "generator.out": j.gen.out[-3000:],
                                    "case.json": json.dumps({"grammar": j.g.name, "algorithm": j.algo, "features": sorted(j.feats), "kind": "rejected"})}))
        else:
            inconclusive.append("generator rejected corpus grammar %s [%s]: %s" % (j.g.name, j.algo, msg))
    # ---- native validation of the model against the real driver + public API ------------------
    traces = 0
    nat = None
    oracles = {}
    if accepted:
        nat = native.NativeParsers(accepted, name="nat_" + pid.lower())
        queries, meta = [], []
        for j in accepted:
            okey = (j.g.name, tuple(sorted(j.feats)), j.start)
            if okey not in oracles:
                oracles[okey] = native.SpecOracle(j.spec, max(j.n, native_len))
            if j.info and j.info.get(j.start, {}).get("recovery"):
                continue        # with error recovery the public result of a non-sentence is not the plain LR verdict (C16's subject)
            act = [i for i, a in enumerate(j.spec.active) if a]
            for w in all_inputs(act, native_len):
                queries.append((j.modname, j.start, w))
                meta.append((j, w))
        res = nat.run(queries)
        for (j, w), obs in zip(meta, res):
            traces += 1
            orc = oracles[(j.g.name, tuple(sorted(j.feats)), j.start)]
            bad = orc.check(w, obs, canonical=(j.algo == "lr1"))
            bad = [b for b in bad if relevant(pid, b)]
            if bad:
                key = "native:%s:%s:%s:%s" % (j.g.name, j.algo, j.start, "_".join(map(str, w)))
                violations.append((key, "%s on input %s: %s" % (j.key(), [j.g.terms[k].name for k in w], "; ".join(bad)),
                                   replay_files(j, w, obs, bad, nat=nat, orc=orc)))
    # ---- recursive-ascent backend: NATIVE runs only (it cannot be executed symbolically: probe P2); same inputs, same oracle
    ascent_traces = 0
    if ascent and accepted:
        import copy
        ajobs = []
        for j in accepted:
            if j.info and j.info.get(j.start, {}).get("recovery"):
                continue
            if j.algo != "lane" and tier == "quick":
                continue          # the ascent code generator is the same for every construction algorithm: one in the quick tier
            if any(a.modname == j.modname + "_asc" for a in ajobs):
                aj = copy.copy(j)
                aj.modname = j.modname + "_asc"
                aj.gen = [a for a in ajobs if a.modname == aj.modname][0].gen
                ajobs.append(aj)
                continue
            text = G.to_lalrpop(j.g, force_lalr=K.ALGOS[j.algo][0], ascent=True)
            gen = K.run_generator(text, j.g.name, env=dict(K.ALGOS[j.algo][1]), features=sorted(j.feats) or None)
            if not gen.ok:
                continue          # error recovery etc. are table-driven only
            aj = copy.copy(j)
            aj.modname = j.modname + "_asc"
            aj.gen = gen
            aj.text = text
            ajobs.append(aj)
        if ajobs:
            anat = native.NativeParsers(ajobs, name="nat_asc_" + pid.lower())
            queries, meta = [], []
            for j in ajobs:
                act = [i for i, a in enumerate(j.spec.active) if a]
                for w in all_inputs(act, native_len):
                    queries.append((j.modname, j.start, w))
                    meta.append((j, w))
            res = anat.run(queries)
            for (j, w), obs in zip(meta, res):
                ascent_traces += 1
                orc = oracles[(j.g.name, tuple(sorted(j.feats)), j.start)]
                bad = [b for b in orc.check(w, obs, canonical=(j.algo == "lr1")) if relevant(pid, b) and not b.startswith(("duplicate in expected", "expected list names", "canonical LR(1)"))]
                if bad:
                    key = "ascent:%s:%s:%s:%s" % (j.g.name, j.algo, j.start, "_".join(map(str, w)))
                    violations.append((key, "recursive-ascent parser of %s [%s] on input %s: %s" % (j.g.name, j.algo, [j.g.terms[k].name for k in w], "; ".join(bad)),
                                       replay_files(j, w, obs, bad, nat=anat, orc=orc)))
        traces += ascent_traces
    # ---- deep stacks (native): pumped inputs longer than the number of LR states, each followed by every terminal and by EOF
    deep_traces = 0
    if deep and accepted:
        queries, meta = [], []
        for j in accepted:
            if j.info and j.info.get(j.start, {}).get("recovery"):
                continue
            nstates = j.gen.rs.count("// State ") // 2 // max(1, len(j.info or {1: 1}))
            act = [i for i, a in enumerate(j.spec.active) if a]
            for w in native.deep_inputs(j.spec, max(nstates, 4), max_words=12 if tier == "quick" else 40):
                for tail in [[]] + [[t] for t in act]:
                    queries.append((j.modname, j.start, w + tail))
                    meta.append((j, w + tail))
        if queries:
            res = nat.run(queries)
            for (j, w), obs in zip(meta, res):
                deep_traces += 1
                exp = native.deep_expect(j.spec, w)
                bad = [b for b in native.check_expect(exp, w, obs, canonical=(j.algo == "lr1")) if relevant(pid, b)]
                if bad:
                    key = "deep:%s:%s:%s:%d" % (j.g.name, j.algo, j.start, len(w))
                    if not any(v[0] == key for v in violations):
                        exp2 = dict(exp, valid_next=sorted(exp["valid_next"])) if "valid_next" in exp else exp
                        violations.append((key, "%s on the deep input %s (%d tokens): %s" % (j.key(), compress([j.g.terms[k].name for k in w]), len(w), "; ".join(bad)),
                                           dict(replay_files(j, w, obs, bad, nat=nat), **{"expected.json": json.dumps(exp2)})))
        traces += deep_traces
    # ---- Kani ---------------------------------------------------------------------------------
    hs = [h for j in accepted for h in j.harnesses]
    byh = {h: j for j in accepted for h in j.harnesses}
    results = {}
    if hs:
        tc = crate.check_compiles()
        K.log("[kani] harness crate compiled in %.1fs, %d harnesses" % (tc, len(hs)))
        results = K.run_kani(crate, hs, timeout_s=timeout_s, jobs=kani_jobs)
    discharged = 0
    steps = vccs = 0
    samples = []
    solver_s = 0.0
    failed = []
    for h in hs:
        r = results[h]
        j = byh[h]
        solver_s += r.wall_s
        steps += r.steps
        vccs += r.vccs
        rec = {"harness": h, "grammar": j.g.name, "algorithm": j.algo, "start": j.start, "features": sorted(j.feats),
               "N": j.n, "fuel": j.fuel, "status": r.status, "wall_s": round(r.wall_s, 1),
               "checks": r.checks_total, "covers": "%d/%d" % (r.covers_sat, r.covers_total)}
        if r.status == "SUCCESSFUL":
            missing = [c for c in r.unsat_covers if c.startswith(REQ_COVER_PREFIXES)]
            if missing:
                inconclusive.append("%s: vacuity witness unsatisfied: %s" % (h, missing))
                rec["status"] = "VACUOUS"
            else:
                discharged += 1
        elif r.status == "FAILED":
            failed.append(h)
        else:
            inconclusive.append("%s: %s after %.0fs" % (h, r.status, r.wall_s))
        samples.append(rec)
    # ---- counterexamples: playback + native replay --------------------------------------------
    if failed:
        pb = K.run_kani(crate, failed, timeout_s=timeout_s * 2, playback=True, jobs=kani_jobs)
        for h in failed:
            j = byh[h]
            vals = K.parse_playback_values(pb[h].log)
            fc = results[h].failed_checks
            if not vals:
                inconclusive.append("%s FAILED (%s) but no concrete playback could be extracted" % (h, fc[:2]))
                continue
            m = j.n + 1 if "expected" in j.kinds else max(j.n, 1)
            try:
                n = struct.unpack("<Q", vals[0])[0]
                kinds = [v[0] for v in vals[1:1 + m]][:n]
            except Exception as ex:
                inconclusive.append("%s: cannot decode playback values: %r" % (h, ex))
                continue
            obs = nat.run([(j.modname, j.start, kinds)])[0]
            obs_rel = nat.run([(j.modname, j.start, kinds)], release=True)[0]
            orc = oracles[(j.g.name, tuple(sorted(j.feats)), j.start)]
            if max(len(kinds) + 1, 1) > max(j.n, native_len) + 1:
                orc = native.SpecOracle(j.spec, len(kinds) + 1)
            bad = [b for b in orc.check(kinds, obs, canonical=(j.algo == "lr1")) if relevant(pid, b)]
            bad_rel = [b for b in orc.check(kinds, obs_rel, canonical=(j.algo == "lr1")) if relevant(pid, b)]
            key = "kani:%s:%s:%s:%s" % (j.g.name, j.algo, j.start, h.split("::")[-1])
            if bad or bad_rel:
                violations.append((key, "%s: solver counterexample %s reproduces natively: %s (failed checks: %s)" %
                                   (h, [j.g.terms[k].name for k in kinds], "; ".join(bad or bad_rel), fc[:2]),
                                   replay_files(j, kinds, obs, bad or bad_rel, {"harness": h, "failed_checks": fc}, nat=nat, orc=orc)))
            else:
                inconclusive.append("%s FAILED (%s) with input %s, but the native parser agrees with the specification on it "
                                    "(observed %r): the table functions disagree with the harness model while the public API "
                                    "result is right – not reported as a violation of %s" %
                                    (h, fc[:2], [j.g.terms[k].name for k in kinds], obs, pid))
    # ---- verdict --------------------------------------------------------------------------------
    nviol = 0
    for key, text, files in violations:
        if key in known:
            known_hit.append((key, text))
            continue
        nviol += 1
        case = key.replace(":", "_").replace("/", "_")[:120]
        path = K.save_replay(pid, case, files)
        print("VIOLATION property=%s replay=%s" % (pid, path))
        print("  " + text)
    for key, text in known_hit:
        print("KNOWN-FINDING: property=%s %s" % (pid, text))
    # corpus reach: productions of the specification grammar that no sentence within the bound uses
    unreached = []
    for j in accepted:
        for (a, i), need in C.production_reach(j.spec.cfg, j.start).items():
            if need is None or need > j.n:
                unreached.append("%s/%s: production %s#%d needs a sentence of %s tokens (bound %d)" % (j.g.name, j.start, a, i, need, j.n))
    unreached = sorted(set(unreached))
    wall = time.time() - t0
    grammars = sorted({j.g.name for j in accepted})
    cov = {
        "states": max(steps, 1),
        "transitions": max(vccs, 1),
        "traces_validated_against_impl": traces,
        "samples": samples[:60],
        "obligations": len(hs),
        "discharged": discharged,
        "programs": len(grammars),
        "grammars": grammars,
        "configurations": sorted({"%s/%s/%s" % (j.algo, ",".join(sorted(j.feats)) or "-", "env" if j.feat_env else "cli") for j in accepted}),
        "functions_encoded": functions,
        "deep_stack_native_runs": deep_traces,
        "recursive_ascent_native_runs": ascent_traces,
        "bounds": {"max_tokens_N": sorted({j.n for j in accepted}), "native_validation_max_len": native_len,
                   "per_harness_timeout_s": timeout_s,
                   "outside": "inputs longer than N tokens; grammars outside the corpus; recursive-ascent backend"},
        "solver": "CBMC 6.11 / CaDiCaL via Kani 0.68",
        "solver_wall_s_sum": round(solver_s, 1),
        "states_meaning": "sum over harnesses of CBMC program-expression steps; transitions = generated VCCs",
        "inconclusive": inconclusive,
        "known_findings_hit": [k for k, _ in known_hit],
        "productions_not_reached_within_bound": unreached,
        "explanation": level_note_extra,
    }
    K.write_evidence(pid, tier, "model_checking", cov, assumptions, wall, violations=nviol)
    K.log("[%s] %d/%d harnesses discharged, %d native traces, %d violation(s), %d inconclusive, %.0fs" %
          (pid, discharged, len(hs), traces, nviol, len(inconclusive), wall))
    if nviol:
        return 1
    if inconclusive:
        for x in inconclusive:
            print("INCONCLUSIVE: " + str(x))
        return 2
    return 0


_RELEVANT = {
    # which native complaints belong to which property
    "C01": ("sentence rejected", "non-sentence accepted", "parser panicked"),
    "C04": ("expected UnrecognizedToken", "wrong token reported", "expected UnrecognizedEof", "UnrecognizedEof location",
            "non-sentence accepted"),
    "C05": ("duplicate in expected", "expected list names", "canonical LR(1)"),
    "C08": ("parser panicked",),
}


def relevant(pid, complaint):
    pre = _RELEVANT.get(pid)
    if pre is None:
        pre = _RELEVANT["C01"]
    return complaint.startswith(pre)


def replay(pid, path):
    """Re-run a stored case against the current working tree: regenerate the parser from the stored grammar text under the stored
    configuration, build it against the current lalrpop-util, parse the stored input through the public API, compare with the
    stored specification verdict.  Exit 1 if the complaint persists, 0 if the tree now behaves as specified."""
    import re as _re
    case = json.load(open(os.path.join(path, "case.json")))
    if case.get("engine") == "symdrive":
        from . import e3
        return e3.replay_case(path)
    text = open(os.path.join(path, "grammar.lalrpop")).read()
    env = dict(case.get("env") or {})
    gen = K.run_generator(text, case["grammar"], env=env, features=case["features"] or None)
    if not gen.ok:
        print("generator now rejects the grammar:\n" + gen.out[-1500:])
        return 2
    mp = os.path.join(path, "main.rs")
    if not os.path.exists(mp) or case.get("expected") is None:
        print("recorded: observed=%r complaints=%r (no stored driver: run the property check for a verdict)" % (case["observed"], case["complaints"]))
        return 0
    crate = K.NativeCrate("replay_e1")
    main = open(mp).read()
    mods = set(_re.findall(r"^pub mod (g_\w+);", main, _re.M))
    for m in mods:
        crate.write(m + ".rs", gen.rs if m == case["module"] else "")
    # modules of other grammars of the original run are not needed: blank them out of the dispatcher
    main = _re.sub(r'\n        \("(?!%s")[^\n]*' % _re.escape(case["module"]), "", main)
    for m in mods - {case["module"]}:
        main = main.replace("pub mod %s;" % m, "")
    crate.write("main.rs", main)
    rc, out = crate.run(stdin="%s %s %s\n" % (case["module"], case["start"], " ".join(map(str, case["input_kinds"]))))
    obs = [l for l in out.splitlines() if l.startswith(("OK", "ERR", "PANIC"))]
    obs = obs[0] if obs else out[-300:]
    exp = case["expected"]
    if "valid_next" in exp:
        exp = dict(exp, valid_next=set(exp["valid_next"]))
    bad = [b for b in native.check_expect(exp, case["input_kinds"], obs, case["algorithm"] == "lr1") if relevant(pid, b)]
    print("input %s -> %s" % (case["input_terminals"], obs))
    print("complaints now: %s" % (bad or "none"))
    return 1 if bad else 0
