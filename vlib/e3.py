"""Engine E3 `symdrive`: wrapper around engines/symdrive (dynamic symbolic execution of the real
natively compiled lalrpop_util::state_machine::Parser::drive with z3 deciding branch feasibility)."""
from __future__ import annotations
import json
import os
import re
import shutil
import subprocess
import time

from . import common as K

_exe = None

CONTRACT = [
    "ParserDefinition contract assumed of the tables (each clause is something LALRPOP's generated tables satisfy by construction): "
    "EOF actions are reduce or error, never shift; a reduction pops at most (stack depth - 1) states, also in the simulated stack of accepts(); "
    "reduce() keeps states.len() == symbols.len()+1, pushes goto(top, lhs) and builds spans as the generated __reduce does (first child start, last child end; "
    "empty: lookahead start | end of the symbol below | start location); the error column never holds the accept reduction; same (state, terminal) => same action (uninterpreted functions)",
    "bounds cut paths: more than R reductions between two shifts, more than R simulated reductions in accepts(), more than E syntax errors per path, productions longer than P symbols",
    "tokens, locations and user errors are opaque handles, so results hold for every token type / location type / error value",
]


def build():
    return K.build_helper("symdrive", "(real driver, native DSE) ")


MODES = {
    # name: (quick args, thorough args)
    "plain": ("--tokens 3 --reds 2 --maxpop 2", "--tokens 4 --reds 2 --maxpop 3"),
    "errors": ("--tokens 2 --reds 2 --maxpop 2 --iter-err --user-err", "--tokens 3 --reds 2 --maxpop 2 --iter-err --user-err"),
    "recovery": ("--tokens 2 --reds 1 --maxpop 2 --recovery --max-recoveries 1", "--tokens 2 --reds 1 --maxpop 2 --recovery --max-recoveries 2"),
    "recovery_errors": ("--tokens 2 --reds 1 --maxpop 1 --recovery --max-recoveries 1 --iter-err --user-err", "--tokens 3 --reds 1 --maxpop 1 --recovery --max-recoveries 1 --iter-err --user-err"),
}

_cache = {}


def run_mode(mode, tier, timeout=3000):
    key = (mode, tier)
    if key in _cache:
        return _cache[key]
    exe = build()
    args = MODES[mode][0 if tier == "quick" else 1].split()
    t0 = time.time()
    try:
        r = subprocess.run([exe] + args, stdout=subprocess.PIPE, stderr=subprocess.PIPE, text=True, timeout=timeout)
    except subprocess.TimeoutExpired:
        raise K.Inconclusive("symdrive %s did not finish in %ds" % (mode, timeout))
    try:
        d = json.loads(r.stdout)
    except Exception:
        raise K.Inconclusive("symdrive %s produced no result: %s %s" % (mode, r.stdout[-500:], r.stderr[-500:]))
    d["mode"] = mode
    d["args"] = " ".join(args)
    _cache[key] = d
    return d


def replay(mode_args, decisions):
    exe = build()
    r = subprocess.run([exe] + mode_args.split() + ["--replay", decisions], stdout=subprocess.PIPE, stderr=subprocess.STDOUT, text=True, timeout=120)
    return r.stdout


def stage(pid, tier, modes, props):
    """Run the modes; returns (violations [(key, text, files)], inconclusive [str], coverage dict).
    Only violations tagged with one of `props` count for this property."""
    viol, inconc = [], []
    cov = {"modes": []}
    for m in modes:
        d = run_mode(m, tier)
        cov["modes"].append({k: d[k] for k in ("mode", "args", "paths", "cut", "decisions", "max_decisions_per_path", "exhausted", "z3_queries", "z3_time_s", "wall_s", "outcomes", "cuts")})
        cov.setdefault("samples", []).extend(d.get("samples", [])[:4])
        if not d["exhausted"]:
            inconc.append("symdrive mode %s: path budget exhausted before the bounded space was covered" % m)
        seen = set()
        for v in d["violations"]:
            if v["property"] not in props:
                continue
            # confirm by replaying the decision list against the real driver once more (deterministic native run)
            out = replay(d["args"], v["decisions"])
            if "VIOLATION %s" % v["property"] not in out:
                inconc.append("symdrive %s: violation %r did not reproduce on replay" % (m, v))
                continue
            msgkey = re.sub(r"St\(\d+\)|#\d+|\d+", "N", v["message"])[:80]
            key = "e3:%s:%s" % (m, re.sub(r"\s+", "_", msgkey))
            if key in seen:
                continue
            seen.add(key)
            viol.append((key, "real driver, mode %s (%s): %s  [decisions %s]" % (m, d["args"], v["message"], v["decisions"]),
                         {"case.json": json.dumps({"engine": "symdrive", "mode": m, "args": d["args"], "decisions": v["decisions"], "property": v["property"], "message": v["message"]}, indent=1),
                          "replay.log": out}))
    cov["paths"] = sum(x["paths"] for x in cov["modes"])
    cov["z3_queries"] = sum(x["z3_queries"] for x in cov["modes"])
    return viol, inconc, cov


def run_property(pid, tier, modes, props, functions, assumptions, note=""):
    """A property decided by E3 alone."""
    t0 = time.time()
    known = K.load_known_findings().get(pid, {})
    viol, inconc, cov = stage(pid, tier, modes, props)
    nviol = 0
    for key, text, files in viol:
        if key in known:
            print("KNOWN-FINDING: property=%s %s" % (pid, text))
            continue
        nviol += 1
        path = K.save_replay(pid, re.sub(r"[^A-Za-z0-9_.-]", "_", key)[:100], files)
        print("VIOLATION property=%s replay=%s" % (pid, path))
        print("  " + text)
    coverage = {
        "states": max(cov["paths"], 1), "transitions": max(sum(x["decisions"] for x in cov["modes"]), 1),
        "traces_validated_against_impl": cov["paths"],
        "samples": cov.get("samples", [])[:12] or [{"note": "no sample"}],
        "states_meaning": "states = explored paths of the real driver (each a native execution); transitions = decisions taken",
        "functions_encoded": functions, "modes": cov["modes"], "solver": "z3 4.8 (QF_UFLIA, incremental, via -in)", "z3_queries": cov["z3_queries"],
        "inconclusive": inconc, "explanation": note,
        "bounds": {m["mode"]: m["args"] for m in cov["modes"]},
    }
    K.write_evidence(pid, tier, "model_checking", coverage, assumptions + CONTRACT, time.time() - t0, violations=nviol)
    K.log("[%s] symdrive: %d paths, %d z3 queries, %d violation(s), %d inconclusive, %.0fs" % (pid, cov["paths"], cov["z3_queries"], nviol, len(inconc), time.time() - t0))
    if nviol:
        return 1
    if inconc:
        for x in inconc:
            print("INCONCLUSIVE: " + x)
        return 2
    return 0


def replay_case(path):
    case = json.load(open(os.path.join(path, "case.json")))
    out = replay(case["args"], case["decisions"])
    print(out)
    return 1 if "VIOLATION %s" % case["property"] in out else 0


def add_stage(pid, tier, rc_first, modes, props, extra_assumptions=()):
    """Run the E3 stage after another engine's check of the same property and merge the evidence."""
    t0 = time.time()
    known = K.load_known_findings().get(pid, {})
    viol, inconc, cov = stage(pid, tier, modes, props)
    nviol = 0
    for key, text, files in viol:
        if key in known:
            print("KNOWN-FINDING: property=%s %s" % (pid, text))
            continue
        nviol += 1
        path = K.save_replay(pid, re.sub(r"[^A-Za-z0-9_.-]", "_", key)[:100], files)
        print("VIOLATION property=%s replay=%s" % (pid, path))
        print("  " + text)
    evp = K.evidence_path(pid)
    ev = json.load(open(evp))
    c = ev["coverage"]
    c["driver_stage"] = {"engine": "E3 symdrive: the real state_machine.rs driver explored path by path under z3-decided branch feasibility", "modes": cov["modes"],
                         "paths": cov["paths"], "z3_queries": cov["z3_queries"], "inconclusive": inconc}
    c["states"] = c.get("states", 0) + cov["paths"]
    c["traces_validated_against_impl"] = c.get("traces_validated_against_impl", 0) + cov["paths"]
    ev["assumptions"] = ev.get("assumptions", []) + list(extra_assumptions) + CONTRACT
    ev["violations"] = ev.get("violations", 0) + nviol
    ev["wall_s"] = round(ev.get("wall_s", 0) + time.time() - t0, 2)
    with open(evp, "w") as f:
        json.dump(ev, f, indent=1)
        f.write("\n")
    K.log("[%s] driver stage (symdrive): %d paths, %d z3 queries, %d violation(s), %d inconclusive" % (pid, cov["paths"], cov["z3_queries"], nviol, len(inconc)))
    for x in inconc:
        print("INCONCLUSIVE: " + x)
    if nviol or rc_first == 1:
        return 1
    if inconc or rc_first == 2:
        return 2
    return 0
