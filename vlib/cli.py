"""Command line: ./check <ID> [--tier quick|thorough] [--replay path] ; ./check --selftest"""
from __future__ import annotations
import argparse
import importlib
import os
import sys
import traceback

from . import common as K


def main():
    ap = argparse.ArgumentParser()
    ap.add_argument("pid")
    ap.add_argument("--tier", default=os.environ.get("VERIF_TIER", "quick"), choices=["quick", "thorough"])
    ap.add_argument("--replay", default=None)
    a = ap.parse_args()
    pid = a.pid.upper()
    try:
        if pid == "SETUP":
            from . import setup
            return setup.main()
        mod = importlib.import_module("props." + pid.lower())
    except ModuleNotFoundError as ex:
        print("no check registered for %s (%s)" % (pid, ex))
        return 2
    try:
        if a.replay:
            return mod.replay(a.replay)
        return mod.run(a.tier)
    except K.Inconclusive as ex:
        print("INCONCLUSIVE: %s" % ex)
        return 2
    except Exception:
        traceback.print_exc()
        print("INCONCLUSIVE: internal error in the checking machinery")
        return 2


if __name__ == "__main__":
    sys.exit(main())
