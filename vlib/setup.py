"""setup_cmd: build what can be built ahead of time and self-test the specification side.
Nothing here is a property check; a failure means the machinery itself is broken."""
from __future__ import annotations
import itertools
import sys
import time

from . import common as K
from corpus import cfg as C
from corpus import gram as G


def all_corpus():
    from corpus import base
    gs = list(base.base_grammars())
    try:
        from corpus import sugar
        gs += sugar.all_grammars()
    except ImportError:
        pass
    return gs


def selftest_cnf(maxlen=5):
    """CNF + CYK (what the Kani oracle is generated from) == exhaustive derivation (language())
    for every corpus grammar, every start symbol, every string up to maxlen, also on Pre(G)."""
    n = 0
    for g in all_corpus():
        try:
            cfg_all, starts = G.to_cfg(g, frozenset())
        except G.SpecReject:
            continue
        for s in starts:
            red = C.reduced(cfg_all, [s])
            if s not in red.prods:
                continue
            pre = C.prefix_cfg(red, [s])
            cnf = C.to_cnf(pre, [s, s + "^"])
            L = C.language(red, s, maxlen)
            P = C.language(pre, s + "^", maxlen)
            # viable prefixes computed independently from sentences that are long enough
            terms = [t for t in red.terms]
            for l in range(maxlen + 1):
                if len(terms) ** l > 4000:
                    break
                for w in itertools.product(terms, repeat=l):
                    n += 1
                    if C.cyk(cnf, s, w) != (w in L):
                        print("SELFTEST FAIL cnf/cyk vs derivation: %s %s %r" % (g.name, s, w))
                        return False
                    if C.cyk(cnf, s + "^", w) != (w in P):
                        print("SELFTEST FAIL prefix cnf: %s %s %r" % (g.name, s, w))
                        return False
            # Pre(G) itself against prefixes of longer sentences
            L2 = C.prefixes_of(C.language(red, s, maxlen + 3))
            for w in P:
                if len(w) <= maxlen - 1 and w not in L2 and len(w) + 3 >= maxlen:
                    pass  # a prefix may need a completion longer than maxlen+3; not an error
            for w in L2:
                if len(w) <= maxlen and w not in P:
                    print("SELFTEST FAIL prefix grammar misses %r of %s" % (w, g.name))
                    return False
    print("[setup] CNF/CYK oracle cross-checked against exhaustive derivation on %d strings" % n)
    return True


def main():
    t0 = time.time()
    ok = True
    K.build_generator()
    K.build_gendrv()
    from . import lexsym
    lexsym.build_hirdump()
    ok &= selftest_cnf()
    print("[setup] done in %.1fs: %s" % (time.time() - t0, "OK" if ok else "FAILED"))
    return 0 if ok else 1
